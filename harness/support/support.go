// Package support holds the user-side types a provider author would supply to
// the generated code: time / duration attr types with nanosecond precision,
// tagged validators / plan modifiers and a call log for custom-type hooks.
package support

import (
	"context"
	"fmt"
	"math/big"
	"time"

	"github.com/hashicorp/terraform-plugin-framework/attr"
	"github.com/hashicorp/terraform-plugin-framework/tfsdk"
	"github.com/hashicorp/terraform-plugin-go/tftypes"
)

// ---- time

type TimeType struct{}

func (t TimeType) ApplyTerraform5AttributePathStep(step tftypes.AttributePathStep) (interface{}, error) {
	return nil, fmt.Errorf("cannot apply AttributePathStep %T to %s", step, t.String())
}
func (t TimeType) String() string { return "TimeType" }
func (t TimeType) Equal(o attr.Type) bool {
	_, ok := o.(TimeType)
	return ok
}
func (t TimeType) TerraformType(_ context.Context) tftypes.Type { return tftypes.String }
func (t TimeType) ValueFromTerraform(ctx context.Context, in tftypes.Value) (attr.Value, error) {
	if !in.IsKnown() {
		return TimeValue{Unknown: true}, nil
	}
	if in.IsNull() {
		return TimeValue{Null: true}, nil
	}
	var raw string
	if err := in.As(&raw); err != nil {
		return nil, err
	}
	v, err := time.Parse(time.RFC3339Nano, raw)
	if err != nil {
		return nil, err
	}
	return TimeValue{Value: v}, nil
}

type TimeValue struct {
	Unknown bool
	Null    bool
	Value   time.Time
}

func (t TimeValue) Type(_ context.Context) attr.Type { return TimeType{} }
func (t TimeValue) ToTerraformValue(_ context.Context) (tftypes.Value, error) {
	if t.Null {
		return tftypes.NewValue(tftypes.String, nil), nil
	}
	if t.Unknown {
		return tftypes.NewValue(tftypes.String, tftypes.UnknownValue), nil
	}
	return tftypes.NewValue(tftypes.String, t.Value.Format(time.RFC3339Nano)), nil
}
func (t TimeValue) Equal(other attr.Value) bool {
	o, ok := other.(TimeValue)
	return ok && t.Unknown == o.Unknown && t.Null == o.Null && t.Value.Equal(o.Value)
}
func (t TimeValue) IsNull() bool    { return t.Null }
func (t TimeValue) IsUnknown() bool { return t.Unknown }
func (t TimeValue) String() string  { return t.Value.String() }

// ---- duration

type DurationType struct{}

func (t DurationType) ApplyTerraform5AttributePathStep(step tftypes.AttributePathStep) (interface{}, error) {
	return nil, fmt.Errorf("cannot apply AttributePathStep %T to %s", step, t.String())
}
func (t DurationType) String() string { return "DurationType" }
func (t DurationType) Equal(o attr.Type) bool {
	_, ok := o.(DurationType)
	return ok
}
func (t DurationType) TerraformType(_ context.Context) tftypes.Type { return tftypes.String }
func (t DurationType) ValueFromTerraform(ctx context.Context, in tftypes.Value) (attr.Value, error) {
	if !in.IsKnown() {
		return DurationValue{Unknown: true}, nil
	}
	if in.IsNull() {
		return DurationValue{Null: true}, nil
	}
	var raw string
	if err := in.As(&raw); err != nil {
		return nil, err
	}
	v, err := time.ParseDuration(raw)
	if err != nil {
		return nil, err
	}
	return DurationValue{Value: v}, nil
}

type DurationValue struct {
	Unknown bool
	Null    bool
	Value   time.Duration
}

func (t DurationValue) Type(_ context.Context) attr.Type { return DurationType{} }
func (t DurationValue) ToTerraformValue(_ context.Context) (tftypes.Value, error) {
	if t.Null {
		return tftypes.NewValue(tftypes.String, nil), nil
	}
	if t.Unknown {
		return tftypes.NewValue(tftypes.String, tftypes.UnknownValue), nil
	}
	return tftypes.NewValue(tftypes.String, t.Value.String()), nil
}
func (t DurationValue) Equal(other attr.Value) bool {
	o, ok := other.(DurationValue)
	return ok && t.Unknown == o.Unknown && t.Null == o.Null && t.Value == o.Value
}
func (t DurationValue) IsNull() bool    { return t.Null }
func (t DurationValue) IsUnknown() bool { return t.Unknown }
func (t DurationValue) String() string  { return t.Value.String() }

// ---- tagged validators / plan modifiers

// ---- types for schema_types overrides: the same payloads as types.String / types.Int64 under other names
// OvrString / OvrInt: the values a schema_types entry names as `type` (scalar types are emitted as bare
// expressions, like types.StringType)
var (
	OvrString attr.Type = OvrStringType{}
	OvrInt    attr.Type = OvrIntType{}
)

type OvrStringType struct{}

func (t OvrStringType) ApplyTerraform5AttributePathStep(step tftypes.AttributePathStep) (interface{}, error) {
	return nil, fmt.Errorf("cannot apply AttributePathStep %T to %s", step, t.String())
}
func (t OvrStringType) String() string { return "OvrStringType" }
func (t OvrStringType) Equal(o attr.Type) bool {
	_, ok := o.(OvrStringType)
	return ok
}
func (t OvrStringType) TerraformType(_ context.Context) tftypes.Type { return tftypes.String }
func (t OvrStringType) ValueFromTerraform(ctx context.Context, in tftypes.Value) (attr.Value, error) {
	if !in.IsKnown() {
		return OvrStringValue{Unknown: true}, nil
	}
	if in.IsNull() {
		return OvrStringValue{Null: true}, nil
	}
	var s string
	if err := in.As(&s); err != nil {
		return nil, err
	}
	return OvrStringValue{Value: s}, nil
}

type OvrStringValue struct {
	Unknown bool
	Null    bool
	Value   string
}

func (t OvrStringValue) Type(_ context.Context) attr.Type { return OvrStringType{} }
func (t OvrStringValue) ToTerraformValue(_ context.Context) (tftypes.Value, error) {
	if t.Null {
		return tftypes.NewValue(tftypes.String, nil), nil
	}
	if t.Unknown {
		return tftypes.NewValue(tftypes.String, tftypes.UnknownValue), nil
	}
	return tftypes.NewValue(tftypes.String, t.Value), nil
}
func (t OvrStringValue) Equal(other attr.Value) bool {
	o, ok := other.(OvrStringValue)
	return ok && o == t
}
func (t OvrStringValue) IsNull() bool    { return t.Null }
func (t OvrStringValue) IsUnknown() bool { return t.Unknown }
func (t OvrStringValue) String() string  { return t.Value }

type OvrIntType struct{}

func (t OvrIntType) ApplyTerraform5AttributePathStep(step tftypes.AttributePathStep) (interface{}, error) {
	return nil, fmt.Errorf("cannot apply AttributePathStep %T to %s", step, t.String())
}
func (t OvrIntType) String() string { return "OvrIntType" }
func (t OvrIntType) Equal(o attr.Type) bool {
	_, ok := o.(OvrIntType)
	return ok
}
func (t OvrIntType) TerraformType(_ context.Context) tftypes.Type { return tftypes.Number }
func (t OvrIntType) ValueFromTerraform(ctx context.Context, in tftypes.Value) (attr.Value, error) {
	if !in.IsKnown() {
		return OvrIntValue{Unknown: true}, nil
	}
	if in.IsNull() {
		return OvrIntValue{Null: true}, nil
	}
	var f big.Float
	if err := in.As(&f); err != nil {
		return nil, err
	}
	i, _ := f.Int64()
	return OvrIntValue{Value: i}, nil
}

type OvrIntValue struct {
	Unknown bool
	Null    bool
	Value   int64
}

func (t OvrIntValue) Type(_ context.Context) attr.Type { return OvrIntType{} }
func (t OvrIntValue) ToTerraformValue(_ context.Context) (tftypes.Value, error) {
	if t.Null {
		return tftypes.NewValue(tftypes.Number, nil), nil
	}
	if t.Unknown {
		return tftypes.NewValue(tftypes.Number, tftypes.UnknownValue), nil
	}
	return tftypes.NewValue(tftypes.Number, new(big.Float).SetInt64(t.Value)), nil
}
func (t OvrIntValue) Equal(other attr.Value) bool {
	o, ok := other.(OvrIntValue)
	return ok && o == t
}
func (t OvrIntValue) IsNull() bool    { return t.Null }
func (t OvrIntValue) IsUnknown() bool { return t.Unknown }
func (t OvrIntValue) String() string  { return fmt.Sprint(t.Value) }

type TagValidator struct{ Tag string }

func (v TagValidator) Description(context.Context) string         { return "V" + v.Tag }
func (v TagValidator) MarkdownDescription(context.Context) string { return "V" + v.Tag }
func (v TagValidator) Validate(context.Context, tfsdk.ValidateAttributeRequest, *tfsdk.ValidateAttributeResponse) {
}

func V1() tfsdk.AttributeValidator { return TagValidator{"1"} }
func V2() tfsdk.AttributeValidator { return TagValidator{"2"} }
func V3() tfsdk.AttributeValidator { return TagValidator{"3"} }

type TagPlanModifier struct{ Tag string }

func (v TagPlanModifier) Description(context.Context) string         { return "PM" + v.Tag }
func (v TagPlanModifier) MarkdownDescription(context.Context) string { return "PM" + v.Tag }
func (v TagPlanModifier) Modify(context.Context, tfsdk.ModifyAttributePlanRequest, *tfsdk.ModifyAttributePlanResponse) {
}

func PM1() tfsdk.AttributePlanModifier { return TagPlanModifier{"1"} }
func PM2() tfsdk.AttributePlanModifier { return TagPlanModifier{"2"} }
func PM3() tfsdk.AttributePlanModifier { return TagPlanModifier{"3"} }
