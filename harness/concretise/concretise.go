// Package concretise turns an abstract descriptor + configuration into a real
// CodeGeneratorRequest (no protoc needed), a YAML file and a plugin parameter
// string.  Deliberately dumb and table driven: it is part of the trusted base.
package concretise

import (
	"bytes"
	"compress/gzip"
	"fmt"
	"io/ioutil"
	"math/rand"
	"regexp"
	"sort"
	"strings"
	"unicode"

	"github.com/gogo/protobuf/gogoproto"
	"github.com/gogo/protobuf/proto"
	descriptor "github.com/gogo/protobuf/protoc-gen-gogo/descriptor"
	plugin "github.com/gogo/protobuf/protoc-gen-gogo/plugin"
	_ "github.com/gogo/protobuf/types" // registers timestamp.proto / duration.proto

	"verif/harness/absd"
)

func registered(regName, asName string) *descriptor.FileDescriptorProto {
	gz := proto.FileDescriptor(regName)
	if gz == nil {
		panic("descriptor not registered: " + regName)
	}
	r, err := gzip.NewReader(bytes.NewReader(gz))
	if err != nil {
		panic(err)
	}
	b, err := ioutil.ReadAll(r)
	if err != nil {
		panic(err)
	}
	fd := &descriptor.FileDescriptorProto{}
	if err := proto.Unmarshal(b, fd); err != nil {
		panic(err)
	}
	fd.Name = proto.String(asName)
	return fd
}

var scalarTypes = map[string]descriptor.FieldDescriptorProto_Type{
	"double":   descriptor.FieldDescriptorProto_TYPE_DOUBLE,
	"float":    descriptor.FieldDescriptorProto_TYPE_FLOAT,
	"int64":    descriptor.FieldDescriptorProto_TYPE_INT64,
	"uint64":   descriptor.FieldDescriptorProto_TYPE_UINT64,
	"int32":    descriptor.FieldDescriptorProto_TYPE_INT32,
	"fixed64":  descriptor.FieldDescriptorProto_TYPE_FIXED64,
	"fixed32":  descriptor.FieldDescriptorProto_TYPE_FIXED32,
	"bool":     descriptor.FieldDescriptorProto_TYPE_BOOL,
	"string":   descriptor.FieldDescriptorProto_TYPE_STRING,
	"bytes":    descriptor.FieldDescriptorProto_TYPE_BYTES,
	"uint32":   descriptor.FieldDescriptorProto_TYPE_UINT32,
	"sfixed32": descriptor.FieldDescriptorProto_TYPE_SFIXED32,
	"sfixed64": descriptor.FieldDescriptorProto_TYPE_SFIXED64,
	"sint32":   descriptor.FieldDescriptorProto_TYPE_SINT32,
	"sint64":   descriptor.FieldDescriptorProto_TYPE_SINT64,
}

// ScalarTypeNames lists the 15 proto scalar types.
func ScalarTypeNames() []string {
	r := make([]string, 0, len(scalarTypes))
	for k := range scalarTypes {
		r = append(r, k)
	}
	sort.Strings(r)
	return r
}

// protoc's json_name: lowerCamelCase
func jsonName(s string) string {
	var b strings.Builder
	up := false
	for _, r := range s {
		if r == '_' {
			up = true
			continue
		}
		if up {
			b.WriteRune(unicode.ToUpper(r))
			up = false
		} else {
			b.WriteRune(r)
		}
	}
	return b.String()
}

// protoc's map entry name: CamelCase(field)+"Entry"
func entryName(s string) string {
	var b strings.Builder
	up := true
	for _, r := range s {
		if r == '_' {
			up = true
			continue
		}
		if up {
			b.WriteRune(unicode.ToUpper(r))
			up = false
		} else {
			b.WriteRune(r)
		}
	}
	return b.String() + "Entry"
}

func setBoolExt(o *descriptor.FieldOptions, e *proto.ExtensionDesc, v bool) {
	if err := proto.SetExtension(o, e, &v); err != nil {
		panic(err)
	}
}
func setStrExt(o *descriptor.FieldOptions, e *proto.ExtensionDesc, v string) {
	if err := proto.SetExtension(o, e, &v); err != nil {
		panic(err)
	}
}

func scalarField(name string, num int32, ty string) *descriptor.FieldDescriptorProto {
	t := scalarTypes[ty]
	l := descriptor.FieldDescriptorProto_LABEL_OPTIONAL
	return &descriptor.FieldDescriptorProto{Name: proto.String(name), Number: proto.Int32(num), Type: &t, Label: &l, JsonName: proto.String(jsonName(name))}
}

// applyType sets type / type_name of fd for abstract type ty.
func applyType(fd *descriptor.FieldDescriptorProto, pkg string, f absd.Fld, nest map[string]string) {
	if n, ok := nest[f.Ref]; ok && (f.Ty == "msg" || f.Ty == "bogus") {
		f.Ref = n // Parent.Name
	}
	switch f.Ty {
	case "enum":
		t := descriptor.FieldDescriptorProto_TYPE_ENUM
		fd.Type = &t
		fd.TypeName = proto.String("." + pkg + ".En")
	case "msg":
		t := descriptor.FieldDescriptorProto_TYPE_MESSAGE
		fd.Type = &t
		fd.TypeName = proto.String("." + pkg + "." + f.Ref)
	case "timestamp":
		t := descriptor.FieldDescriptorProto_TYPE_MESSAGE
		fd.Type = &t
		fd.TypeName = proto.String(".google.protobuf.Timestamp")
	case "duration":
		t := descriptor.FieldDescriptorProto_TYPE_MESSAGE
		fd.Type = &t
		fd.TypeName = proto.String(".google.protobuf.Duration")
	case "bogus":
		// a group: a field type the generator has no mapping for
		t := descriptor.FieldDescriptorProto_TYPE_GROUP
		fd.Type = &t
		fd.TypeName = proto.String("." + pkg + "." + f.Ref)
	default:
		t, ok := scalarTypes[f.Ty]
		if !ok {
			panic("unknown abstract type " + f.Ty)
		}
		fd.Type = &t
	}
}

func buildMessage(pkg string, mi int, m absd.Msg, sci *descriptor.SourceCodeInfo, nest map[string]string) *descriptor.DescriptorProto {
	dp := &descriptor.DescriptorProto{Name: proto.String(m.Name)}
	for _, o := range m.Oneofs {
		dp.OneofDecl = append(dp.OneofDecl, &descriptor.OneofDescriptorProto{Name: proto.String(o)})
	}
	// Source code info the way protoc writes it: one location per declaration and per part of it (name, number, type ...),
	// with the leading comment where there is one, and - on commented declarations - a trailing and a detached comment
	// as well.  Only the LEADING comment of the declaration's own location is its description.
	if sci != nil {
		loc := &descriptor.SourceCodeInfo_Location{Path: []int32{4, int32(mi)}, Span: []int32{int32(10 * mi), 0, int32(10*mi + 9), 1}}
		if len(m.Comment) > 0 {
			loc.LeadingComments = proto.String(absd.Raw(m.Comment))
			loc.TrailingComments = proto.String(" trailing remark on the message\n")
			loc.LeadingDetachedComments = []string{" a detached block in front of the message\n"}
		}
		sci.Location = append(sci.Location, loc,
			&descriptor.SourceCodeInfo_Location{Path: []int32{4, int32(mi), 1}, Span: []int32{int32(10 * mi), 8, 12}})
		for oi := range m.Oneofs {
			sci.Location = append(sci.Location, &descriptor.SourceCodeInfo_Location{Path: []int32{4, int32(mi), 8, int32(oi)},
				Span: []int32{int32(10*mi + 1), 2, int32(10*mi + 3), 3}, LeadingComments: proto.String(" the group of alternatives\n")})
		}
	}
	for fi, f := range m.Fields {
		fd := &descriptor.FieldDescriptorProto{Name: proto.String(f.Name), Number: proto.Int32(int32(f.Num)), JsonName: proto.String(jsonName(f.Name))}
		opt := descriptor.FieldDescriptorProto_LABEL_OPTIONAL
		rep := descriptor.FieldDescriptorProto_LABEL_REPEATED
		fd.Label = &opt
		opts := &descriptor.FieldOptions{}
		hasOpts := false
		switch f.Card {
		case "one":
			applyType(fd, pkg, f, nest)
		case "rep":
			fd.Label = &rep
			applyType(fd, pkg, f, nest)
		case "map":
			fd.Label = &rep
			en := entryName(f.Name)
			t := descriptor.FieldDescriptorProto_TYPE_MESSAGE
			fd.Type = &t
			fd.TypeName = proto.String("." + pkg + "." + m.Name + "." + en)
			key := scalarField("key", 1, f.MapKey)
			val := &descriptor.FieldDescriptorProto{Name: proto.String("value"), Number: proto.Int32(2), Label: &opt, JsonName: proto.String("value")}
			applyType(val, pkg, f, nest)
			dp.NestedType = append(dp.NestedType, &descriptor.DescriptorProto{
				Name: proto.String(en), Field: []*descriptor.FieldDescriptorProto{key, val},
				Options: &descriptor.MessageOptions{MapEntry: proto.Bool(true)}})
		default:
			panic("bad card " + f.Card)
		}
		if f.Oneof != "" {
			idx := -1
			for i, o := range m.Oneofs {
				if o == f.Oneof {
					idx = i
				}
			}
			if idx < 0 {
				panic("oneof not declared: " + f.Oneof)
			}
			fd.OneofIndex = proto.Int32(int32(idx))
		}
		if !f.Nullable {
			setBoolExt(opts, gogoproto.E_Nullable, false)
			hasOpts = true
		}
		if f.Embed {
			setBoolExt(opts, gogoproto.E_Embed, true)
			hasOpts = true
		}
		if f.HasJSON {
			setStrExt(opts, gogoproto.E_Jsontag, f.JSONTag)
			hasOpts = true
		}
		if f.Cast != "" {
			setStrExt(opts, gogoproto.E_Casttype, f.Cast)
			hasOpts = true
		}
		if f.Custom != "" {
			setStrExt(opts, gogoproto.E_Customtype, f.Custom)
			hasOpts = true
		}
		switch f.Std {
		case "time":
			setBoolExt(opts, gogoproto.E_Stdtime, true)
			hasOpts = true
		case "duration":
			setBoolExt(opts, gogoproto.E_Stdduration, true)
			hasOpts = true
		}
		if hasOpts {
			fd.Options = opts
		}
		if sci != nil {
			base := []int32{4, int32(mi), 2, int32(fi)}
			sub := func(n int32) []int32 { return append(append([]int32{}, base...), n) }
			loc := &descriptor.SourceCodeInfo_Location{Path: base, Span: []int32{int32(10*mi + fi + 1), 2, 30}}
			if len(f.Comment) > 0 {
				loc.LeadingComments = proto.String(absd.Raw(f.Comment))
				loc.TrailingComments = proto.String(" trailing remark on the field\n")
				loc.LeadingDetachedComments = []string{" a detached block in front of the field\n"}
			} else if fi%2 == 1 {
				// no leading comment: a trailing one alone describes nothing
				loc.TrailingComments = proto.String(" only a trailing remark\n")
			}
			sci.Location = append(sci.Location, loc,
				&descriptor.SourceCodeInfo_Location{Path: sub(5), Span: []int32{int32(10*mi + fi + 1), 2, 8}},
				&descriptor.SourceCodeInfo_Location{Path: sub(1), Span: []int32{int32(10*mi + fi + 1), 9, 14}},
				&descriptor.SourceCodeInfo_Location{Path: sub(3), Span: []int32{int32(10*mi + fi + 1), 17, 18}})
			if hasOpts {
				sci.Location = append(sci.Location, &descriptor.SourceCodeInfo_Location{Path: sub(8), Span: []int32{int32(10*mi + fi + 1), 19, 29}})
			}
		}
		dp.Field = append(dp.Field, fd)
	}
	return dp
}

func usesEnum(ms []absd.Msg) bool {
	for _, m := range ms {
		for _, f := range m.Fields {
			if f.Ty == "enum" {
				return true
			}
		}
	}
	return false
}

func buildFile(name, pkg, goImport string, msgs []absd.Msg, withGogo bool) *descriptor.FileDescriptorProto {
	return buildFileEnum(name, pkg, pkg, goImport, msgs, withGogo, true)
}

// protoPackage: the proto package of the files of a descriptor (dotted on request; the Go package name stays d.Pkg)
func protoPackage(d absd.Desc) string {
	if d.Dotted {
		return "acme." + d.Pkg + ".v1"
	}
	return d.Pkg
}

// buildFileEnum: a second file of the same proto package must not declare the fixed enum again.
func buildFileEnum(name, pkg, protoPkg, goImport string, msgs []absd.Msg, withGogo, withEnum bool) *descriptor.FileDescriptorProto {
	return buildFileNested(name, pkg, protoPkg, goImport, msgs, withGogo, withEnum, nil)
}

// buildFileNested: ... with some of the messages declared inside others (absd.Desc.Nested)
func buildFileNested(name, pkg, protoPkg, goImport string, msgs []absd.Msg, withGogo, withEnum bool, nested []absd.KV) *descriptor.FileDescriptorProto {
	nest := map[string]string{}   // abstract name -> Parent.Name (as in type names)
	parent := map[string]string{} // abstract name -> abstract name of the parent
	simple := map[string]string{} // abstract name -> declared simple name
	for _, kv := range nested {
		p, n := kv.V, kv.K
		if i := strings.IndexByte(kv.V, ':'); i >= 0 {
			p, n = kv.V[:i], kv.V[i+1:]
		}
		nest[kv.K], parent[kv.K], simple[kv.K] = p+"."+n, p, n
	}
	fd := &descriptor.FileDescriptorProto{
		Name:    proto.String(name),
		Package: proto.String(protoPkg),
		Syntax:  proto.String("proto3"),
		Options: &descriptor.FileOptions{GoPackage: proto.String(goImport + ";" + pkg)},
	}
	if withGogo {
		fd.Dependency = append(fd.Dependency, "gogoproto/gogo.proto")
	}
	usesTS, usesDur := false, false
	for _, m := range msgs {
		for _, f := range m.Fields {
			if f.Ty == "timestamp" {
				usesTS = true
			}
			if f.Ty == "duration" {
				usesDur = true
			}
		}
	}
	if usesTS {
		fd.Dependency = append(fd.Dependency, "google/protobuf/timestamp.proto")
	}
	if usesDur {
		fd.Dependency = append(fd.Dependency, "google/protobuf/duration.proto")
	}
	sci := &descriptor.SourceCodeInfo{}
	top := map[string]*descriptor.DescriptorProto{}
	for _, m := range msgs {
		if _, ok := parent[m.Name]; ok {
			continue
		}
		dp := buildMessage(protoPkg, len(fd.MessageType), m, sci, nest)
		top[m.Name] = dp
		fd.MessageType = append(fd.MessageType, dp)
	}
	for _, m := range msgs {
		if p, ok := parent[m.Name]; ok {
			dp := buildMessage(protoPkg, 0, m, nil, nest)
			dp.Name = proto.String(simple[m.Name])
			top[p].NestedType = append(top[p].NestedType, dp)
		}
	}
	if len(sci.Location) > 0 {
		// file-level declarations carry comments of their own (paths 12 = syntax, 2 = package)
		sci.Location = append([]*descriptor.SourceCodeInfo_Location{
			{Path: []int32{}, Span: []int32{0, 0, int32(10*len(msgs) + 9), 1}},
			{Path: []int32{12}, Span: []int32{0, 0, 18}, LeadingComments: proto.String(" the syntax line\n")},
			{Path: []int32{2}, Span: []int32{1, 0, 12}, LeadingComments: proto.String(" the package of the file\n everything declared here belongs to package " + pkg + "\n")},
		}, sci.Location...)
		fd.SourceCodeInfo = sci
	}
	if !withEnum {
		return fd
	}
	// one fixed enum, always declared
	fd.EnumType = append(fd.EnumType, &descriptor.EnumDescriptorProto{
		Name: proto.String("En"),
		Value: []*descriptor.EnumValueDescriptorProto{
			{Name: proto.String(strings.ToUpper(pkg) + "_EN_ZERO"), Number: proto.Int32(0)},
			{Name: proto.String(strings.ToUpper(pkg) + "_EN_ONE"), Number: proto.Int32(1)},
			{Name: proto.String(strings.ToUpper(pkg) + "_EN_TWO"), Number: proto.Int32(2)},
		}})
	return fd
}

// Layout tells the concretiser where the packages live.
type Layout struct {
	StructImport  string // go import path of the struct package (e.g. ws/v0/tp)
	SupportImport string // go import path of the support package (TimeType, validators ...)
	DepImportBase string // go import path prefix for unrelated dependency packages
	TargetPkg     string // target package name when cfg.Separate
}

// Request builds the CodeGeneratorRequest (without parameter).
func Request(d absd.Desc, l Layout) *plugin.CodeGeneratorRequest {
	req := &plugin.CodeGeneratorRequest{}
	req.ProtoFile = append(req.ProtoFile,
		registered("descriptor.proto", "google/protobuf/descriptor.proto"),
	)
	g := registered("gogo.proto", "gogoproto/gogo.proto")
	g.Dependency = []string{"google/protobuf/descriptor.proto"}
	ts := registered("google/protobuf/timestamp.proto", "google/protobuf/timestamp.proto")
	du := registered("google/protobuf/duration.proto", "google/protobuf/duration.proto")
	// what users say with Mgoogle/protobuf/timestamp.proto=github.com/gogo/protobuf/types
	ts.Options.GoPackage = proto.String("github.com/gogo/protobuf/types;types")
	du.Options.GoPackage = proto.String("github.com/gogo/protobuf/types;types")
	req.ProtoFile = append(req.ProtoFile, g, ts, du)
	var shared []string
	for _, dep := range d.Deps {
		if dep.Share {
			req.ProtoFile = append(req.ProtoFile, buildFileEnum(dep.Pkg+".proto", d.Pkg, protoPackage(d), l.StructImport, dep.Msgs, true, false))
			shared = append(shared, dep.Pkg+".proto")
			continue
		}
		req.ProtoFile = append(req.ProtoFile, buildFile(dep.Pkg+".proto", dep.Pkg, l.DepImportBase+"/"+dep.Pkg, dep.Msgs, true))
	}
	f := buildFileNested(d.Pkg+".proto", d.Pkg, protoPackage(d), l.StructImport, d.Msgs, true, true, d.Nested)
	f.Dependency = append(f.Dependency, shared...)
	req.ProtoFile = append(req.ProtoFile, f)
	req.FileToGenerate = []string{d.Pkg + ".proto"}
	return req
}

// ---------------------------------------------------------------------------------------------
// configuration

func perm(rng *rand.Rand, n int) []int {
	if rng == nil {
		r := make([]int, n)
		for i := range r {
			r[i] = i
		}
		return r
	}
	return rng.Perm(n)
}

func shuffled(rng *rand.Rand, s []string) []string {
	r := make([]string, len(s))
	for i, j := range perm(rng, len(s)) {
		r[i] = s[j]
	}
	return r
}

func yq(s string) string { return fmt.Sprintf("%q", s) }

// ValidatorExpr / PlanModifierExpr map abstract tags to Go expressions of the support package.
func ValidatorExpr(l Layout, tag string) string    { return l.SupportImport + ".V" + tag + "()" }
func PlanModifierExpr(l Layout, tag string) string { return l.SupportImport + ".PM" + tag + "()" }

// InjType maps an abstract injected type to the Go attr.Type expression.
func InjType(t string) string {
	switch t {
	case "string":
		return "github.com/hashicorp/terraform-plugin-framework/types.StringType"
	case "int64":
		return "github.com/hashicorp/terraform-plugin-framework/types.Int64Type"
	case "bool":
		return "github.com/hashicorp/terraform-plugin-framework/types.BoolType"
	}
	panic("bad injected type " + t)
}

func channelOf(c absd.Cfg, opt string) string {
	for _, kv := range c.Channel {
		if kv.K == opt {
			return kv.V
		}
	}
	return "yaml"
}

// Config renders YAML text and the CLI parameter list (without config=).  rng (may be nil)
// permutes the order of YAML keys, list entries and + lists (C14).
func Config(c absd.Cfg, l Layout, rng *rand.Rand) (yaml string, cli []string) {
	type section struct{ key, body string }
	var secs []section
	add := func(k, body string) { secs = append(secs, section{k, body}) }

	list := func(key string, items []string) string {
		var b strings.Builder
		if c.YamlStyle == "flow" {
			q := []string{}
			for _, it := range shuffled(rng, items) {
				q = append(q, yq(it))
			}
			return key + ": [" + strings.Join(q, ", ") + "]\n"
		}
		b.WriteString(key + ":\n")
		for _, it := range shuffled(rng, items) {
			b.WriteString("  - " + yq(it) + "\n")
		}
		return b.String()
	}
	// a `+` list of the command line, with an empty entry where the rendering asks for one
	plus := func(items []string) string {
		its := shuffled(rng, items)
		switch c.CliGap {
		case 1:
			its = append([]string{""}, its...)
		case 2:
			its = append([]string{its[0], ""}, its[1:]...)
		case 3:
			its = append(append([]string{}, its...), "")
		}
		return strings.Join(its, "+")
	}
	// two-channel list options
	twoList := func(opt, cliName string, items []string) {
		if len(items) == 0 {
			return
		}
		switch channelOf(c, opt) {
		case "cli":
			cli = append(cli, cliName+"="+plus(items))
		case "both":
			cli = append(cli, cliName+"="+plus(items))
			add(opt, list(opt, []string{"Contradicting.Yaml" + opt}))
		default:
			add(opt, list(opt, items))
		}
	}
	twoStr := func(opt, cliName, v string) {
		if v == "" {
			return
		}
		switch channelOf(c, opt) {
		case "cli":
			cli = append(cli, cliName+"="+v)
		case "both":
			cli = append(cli, cliName+"="+v)
			add(opt, opt+": "+yq("contradicting_"+cliName)+"\n")
		default:
			add(opt, opt+": "+yq(v)+"\n")
		}
	}
	if c.Fault != "notypes" && c.Fault != "emptytypes" {
		twoList("types", "types", c.Types)
	}
	twoList("exclude_fields", "exclude_fields", c.Exclude)
	twoList("computed_fields", "computed_fields", c.Computed)
	twoList("required_fields", "required_fields", c.Required)
	twoList("sensitive_fields", "sensitive", c.Sensitive)
	if c.Separate {
		if c.LegacyOverride {
			legacy := "example.com/legacy/" + l.StructImport[strings.LastIndex(l.StructImport, "/")+1:]
			twoStr("default_package_name", "default_package_name", legacy)
			add("import_path_overrides", "import_path_overrides:\n  "+yq(legacy)+": "+yq(l.StructImport)+"\n")
		} else if c.ImportOverride {
			// the short package name as default_package_name, resolved to the import path by import_path_overrides
			short := l.StructImport[strings.LastIndex(l.StructImport, "/")+1:]
			twoStr("default_package_name", "default_package_name", short)
			extra := ""
			if c.ExtraOverride {
				extra = "  " + yq(l.DepImportBase) + ": " + yq(l.DepImportBase+"/moved") + "\n"
			}
			add("import_path_overrides", "import_path_overrides:\n  "+yq(short)+": "+yq(l.StructImport)+"\n"+extra)
		} else {
			twoStr("default_package_name", "default_package_name", l.StructImport)
			if c.ExtraOverride {
				add("import_path_overrides", "import_path_overrides:\n  "+yq(l.DepImportBase)+": "+yq(l.DepImportBase+"/moved")+"\n")
			}
		}
		twoStr("target_package_name", "target_package_name", l.TargetPkg)
	}
	twoStr("duration_custom_type", "custom_duration", c.DurationCustom)
	cliBool := func(b bool) string {
		pair := map[string][2]string{"1": {"1", "0"}, "t": {"t", "f"}, "T": {"T", "F"}, "TRUE": {"TRUE", "FALSE"}, "True": {"True", "False"}}
		if p, ok := pair[c.BoolStyle]; ok {
			if b {
				return p[0]
			}
			return p[1]
		}
		return fmt.Sprintf("%v", b)
	}
	switch channelOf(c, "sort") {
	case "cli":
		cli = append(cli, "sort="+cliBool(c.Sort))
	case "both":
		cli = append(cli, "sort="+cliBool(c.Sort))
		add("sort", fmt.Sprintf("sort: %v\n", !c.Sort))
	default:
		if c.Sort {
			add("sort", "sort: true\n")
		}
	}
	if c.USFU {
		add("use_state_for_unknown_by_default", "use_state_for_unknown_by_default: true\n")
	}
	if c.TimeType {
		s := l.SupportImport
		add("time_type", "time_type:\n  type: "+yq(s+".TimeType")+"\n  value_type: "+yq(s+".TimeValue")+
			"\n  cast_to_type: \"time.Time\"\n  cast_from_type: \"time.Time\"\n")
	}
	if c.DurationType {
		s := l.SupportImport
		add("duration_type", "duration_type:\n  type: "+yq(s+".DurationType")+"\n  value_type: "+yq(s+".DurationValue")+
			"\n  cast_to_type: \"time.Duration\"\n  cast_from_type: \"time.Duration\"\n")
	}
	kvmap := func(key string, kvs []absd.KV) {
		if len(kvs) == 0 {
			return
		}
		var b strings.Builder
		b.WriteString(key + ":\n")
		for _, i := range perm(rng, len(kvs)) {
			b.WriteString("  " + yq(kvs[i].K) + ": " + yq(kvs[i].V) + "\n")
		}
		add(key, b.String())
	}
	kvmap("name_overrides", c.NameOverrides)
	if len(c.SchemaTypes) > 0 {
		var b strings.Builder
		b.WriteString("schema_types:\n")
		sp := l.SupportImport
		for _, i := range perm(rng, len(c.SchemaTypes)) {
			kv := c.SchemaTypes[i]
			ty, val, cast := sp+".OvrString", sp+".OvrStringValue", "string"
			if kv.V == "int64" {
				ty, val, cast = sp+".OvrInt", sp+".OvrIntValue", "int64"
			}
			b.WriteString("  " + yq(kv.K) + ":\n    type: " + yq(ty) + "\n    value_type: " + yq(val) +
				"\n    cast_to_type: " + yq(cast) + "\n    cast_from_type: " + yq(cast) + "\n")
		}
		add("schema_types", b.String())
	}
	kvmap("custom_types", c.CustomTypes)
	kvmap("suffixes", c.Suffixes)
	kvsmap := func(key string, kvs []absd.KVs, expr func(Layout, string) string) {
		if len(kvs) == 0 {
			return
		}
		var b strings.Builder
		b.WriteString(key + ":\n")
		for _, i := range perm(rng, len(kvs)) {
			b.WriteString("  " + yq(kvs[i].K) + ":\n")
			for _, v := range kvs[i].V { // order of validators is meaningful: never permuted
				b.WriteString("    - " + yq(expr(l, v)) + "\n")
			}
		}
		add(key, b.String())
	}
	kvsmap("validators", c.Validators, ValidatorExpr)
	kvsmap("plan_modifiers", c.PlanModifiers, PlanModifierExpr)
	if len(c.Injected) > 0 {
		var b strings.Builder
		b.WriteString("injected_fields:\n")
		for _, i := range perm(rng, len(c.Injected)) {
			ki := c.Injected[i]
			b.WriteString("  " + yq(ki.K) + ":\n")
			for _, in := range ki.V {
				b.WriteString("    - name: " + yq(in.Name) + "\n      type: " + yq(InjType(in.Type)) + "\n")
				if in.Required {
					b.WriteString("      required: true\n")
				}
				if in.Computed {
					b.WriteString("      computed: true\n")
				}
				if in.Optional {
					b.WriteString("      optional: true\n")
				}
				if len(in.Validators) > 0 {
					b.WriteString("      validators:\n")
					for _, t := range in.Validators {
						b.WriteString("        - " + yq(ValidatorExpr(l, t)) + "\n")
					}
				}
				if len(in.PlanMods) > 0 {
					b.WriteString("      plan_modifiers:\n")
					for _, t := range in.PlanMods {
						b.WriteString("        - " + yq(PlanModifierExpr(l, t)) + "\n")
					}
				}
			}
		}
		add("injected_fields", b.String())
	}
	var b strings.Builder
	b.WriteString("---\n")
	for _, i := range perm(rng, len(secs)) {
		b.WriteString(secs[i].body)
	}
	if rng != nil {
		cli = shuffled(rng, cli)
	}
	if c.YamlStyle == "alias" {
		return aliasRepeated(b.String()), cli
	}
	return b.String(), cli
}

var reListItem = regexp.MustCompile(`^  - (".*")$`)

// aliasRepeated rewrites the entries of the top-level lists that occur more than once in the document: the first
// occurrence (in document order) gets an anchor, the later ones become aliases of it.  The document denotes the same value.
func aliasRepeated(doc string) string {
	lines := strings.Split(doc, "\n")
	count := map[string]int{}
	for _, ln := range lines {
		if m := reListItem.FindStringSubmatch(ln); m != nil {
			count[m[1]]++
		}
	}
	anchor := map[string]string{}
	for i, ln := range lines {
		m := reListItem.FindStringSubmatch(ln)
		if m == nil || count[m[1]] < 2 {
			continue
		}
		if a, ok := anchor[m[1]]; ok {
			lines[i] = "  - *" + a
		} else {
			a := fmt.Sprintf("a%d", len(anchor)+1)
			anchor[m[1]] = a
			lines[i] = "  - &" + a + " " + m[1]
		}
	}
	return strings.Join(lines, "\n")
}
