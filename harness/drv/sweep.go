package drv

import (
	"context"
	"encoding/json"
	"fmt"
	"math"
	"os"
	"reflect"
	"runtime"
	"strconv"
	"sync"

	"github.com/hashicorp/terraform-plugin-framework/attr"
	"github.com/hashicorp/terraform-plugin-framework/types"
)

// Sweep32 runs every finite float32 value (or every stride-th bit pattern) through CopyTo into an empty
// schema-typed object and CopyFrom into a fresh struct of the root type registered under key, for the first float32
// field of that struct, and reports the bit patterns that did not come back (C19: "every finite float32 widened and
// narrowed without rounding").  It enumerates and observes only: mismatches are turned into ordinary behaviours by
// the caller and judged by Trace.tla like any other trace line.
func Sweep32(key, out string, stride uint64) error {
	e, ok := registry[key]
	if !ok {
		return fmt.Errorf("sweep32: %s is not registered", key)
	}
	ctx := context.Background()
	sch, _ := e.Schema(ctx)
	ot, ok := sch.AttributeType().(types.ObjectType)
	if !ok {
		return fmt.Errorf("sweep32: schema of %s is not an object", key)
	}
	rt := reflect.TypeOf(e.New()).Elem()
	fi := -1
	for i := 0; i < rt.NumField(); i++ {
		if rt.Field(i).Type.Kind() == reflect.Float32 {
			fi = i
			break
		}
	}
	if fi < 0 {
		return fmt.Errorf("sweep32: %s has no float32 field", key)
	}
	workers := runtime.NumCPU()
	type res struct {
		checked, panics uint64
		bad             []uint32
	}
	results := make([]res, workers)
	var wg sync.WaitGroup
	span := (uint64(1)<<32 + uint64(workers) - 1) / uint64(workers)
	for w := 0; w < workers; w++ {
		wg.Add(1)
		go func(w int) {
			defer wg.Done()
			r := &results[w]
			lo, hi := uint64(w)*span, uint64(w+1)*span
			if hi > 1<<32 {
				hi = 1 << 32
			}
			// align to the stride so that the union over workers is the strided set
			if rem := lo % stride; rem != 0 {
				lo += stride - rem
			}
			for b := lo; b < hi; b += stride {
				f := math.Float32frombits(uint32(b))
				if f != f || math.IsInf(float64(f), 0) {
					continue
				}
				r.checked++
				var got float32
				p := safely(func() {
					obj := e.New()
					reflect.ValueOf(obj).Elem().Field(fi).SetFloat(float64(f))
					tf := types.Object{AttrTypes: ot.AttrTypes, Attrs: map[string]attr.Value{}}
					e.To(ctx, obj, &tf)
					back := e.New()
					e.From(ctx, tf, back)
					got = float32(reflect.ValueOf(back).Elem().Field(fi).Float())
				})
				if p != "" {
					r.panics++
					if len(r.bad) < 8 {
						r.bad = append(r.bad, uint32(b))
					}
					continue
				}
				if math.Float32bits(got) != uint32(b) && !(f == 0 && got == 0) {
					if len(r.bad) < 8 {
						r.bad = append(r.bad, uint32(b))
					}
				}
			}
		}(w)
	}
	wg.Wait()
	var total res
	for _, r := range results {
		total.checked += r.checked
		total.panics += r.panics
		total.bad = append(total.bad, r.bad...)
	}
	vals := []string{}
	for _, b := range total.bad {
		vals = append(vals, canonFloat(float64(math.Float32frombits(b))))
	}
	j, _ := json.Marshal(J{"key": key, "field": rt.Field(fi).Name, "stride": stride, "checked": total.checked, "panics": total.panics,
		"mismatches": vals, "mismatch_count": len(total.bad)})
	return os.WriteFile(out, j, 0o644)
}

func sweepMain(args []string) {
	if len(args) != 3 {
		fmt.Fprintln(os.Stderr, "usage: driver -sweep32 <key> <out.json> <stride>")
		os.Exit(2)
	}
	stride, err := strconv.ParseUint(args[2], 10, 64)
	if err != nil || stride == 0 {
		fmt.Fprintln(os.Stderr, "bad stride")
		os.Exit(2)
	}
	if err := Sweep32(args[0], args[1], stride); err != nil {
		fmt.Fprintln(os.Stderr, err)
		os.Exit(2)
	}
}
