// Package drv is the generic, reflection based driver library linked with the
// generated code.  It converts between the abstract value language of the
// specification (GV / TV, see DESIGN.md §3.4) and real Go structs / attr.Values,
// executes actions against the real generated functions and writes traces.
package drv

import (
	"encoding/hex"
	"fmt"
	"math"
	"reflect"
	"sort"
	"strconv"
	"strings"
	"time"
)

// J is a JSON object.
type J = map[string]interface{}

// ---------------------------------------------------------------------------------------------
// canonical scalar strings

func canonFloat(f float64) string {
	if f == 0 {
		if math.Signbit(f) {
			return "-0"
		}
		return "0"
	}
	return strconv.FormatFloat(f, 'x', -1, 64)
}

func parseFloat(s string) float64 {
	if s == "-0" {
		return math.Copysign(0, -1)
	}
	f, err := strconv.ParseFloat(s, 64)
	if err != nil {
		panic(fmt.Sprintf("bad float token %q: %v", s, err))
	}
	return f
}

func canonTime(t time.Time) string { return t.Format(time.RFC3339Nano) }

func parseTime(s string) time.Time {
	t, err := time.Parse(time.RFC3339Nano, s)
	if err != nil {
		panic(fmt.Sprintf("bad time token %q: %v", s, err))
	}
	return t
}

var (
	timeType     = reflect.TypeOf(time.Time{})
	durationType = reflect.TypeOf(time.Duration(0))
)

// isScalarType tells whether values of t are abstract scalars.
func isScalarType(t reflect.Type) bool {
	switch t.Kind() {
	case reflect.Bool, reflect.Int8, reflect.Int16, reflect.Int32, reflect.Int64, reflect.Uint8, reflect.Uint16, reflect.Uint32, reflect.Uint64, reflect.Float32, reflect.Float64, reflect.String, reflect.Int, reflect.Uint:
		return true
	case reflect.Slice:
		return t.Elem().Kind() == reflect.Uint8
	case reflect.Struct:
		return t == timeType
	}
	return false
}

func scalarToCanon(v reflect.Value) string {
	t := v.Type()
	switch t.Kind() {
	case reflect.Bool:
		return strconv.FormatBool(v.Bool())
	case reflect.Int, reflect.Int8, reflect.Int16, reflect.Int32, reflect.Int64:
		return strconv.FormatInt(v.Int(), 10)
	case reflect.Uint, reflect.Uint8, reflect.Uint16, reflect.Uint32, reflect.Uint64:
		return strconv.FormatUint(v.Uint(), 10)
	case reflect.Float32, reflect.Float64:
		return canonFloat(v.Float())
	case reflect.String:
		return hex.EncodeToString([]byte(v.String()))
	case reflect.Slice:
		return hex.EncodeToString(v.Bytes())
	case reflect.Struct:
		return canonTime(v.Interface().(time.Time))
	}
	panic("not a scalar: " + t.String())
}

func setScalar(v reflect.Value, s string) {
	t := v.Type()
	switch t.Kind() {
	case reflect.Bool:
		b, err := strconv.ParseBool(s)
		if err != nil {
			panic(err)
		}
		v.SetBool(b)
	case reflect.Int, reflect.Int8, reflect.Int16, reflect.Int32, reflect.Int64:
		i, err := strconv.ParseInt(s, 10, 64)
		if err != nil {
			panic(err)
		}
		if v.OverflowInt(i) {
			panic(fmt.Sprintf("token %s overflows %s", s, t))
		}
		v.SetInt(i)
	case reflect.Uint, reflect.Uint8, reflect.Uint16, reflect.Uint32, reflect.Uint64:
		i, err := strconv.ParseUint(s, 10, 64)
		if err != nil {
			panic(err)
		}
		if v.OverflowUint(i) {
			panic(fmt.Sprintf("token %s overflows %s", s, t))
		}
		v.SetUint(i)
	case reflect.Float32, reflect.Float64:
		f := parseFloat(s)
		if t.Kind() == reflect.Float32 && float64(float32(f)) != f {
			panic(fmt.Sprintf("token %s is not a float32", s))
		}
		v.SetFloat(f)
	case reflect.String:
		b, err := hex.DecodeString(s)
		if err != nil {
			panic(err)
		}
		v.SetString(string(b))
	case reflect.Slice:
		b, err := hex.DecodeString(s)
		if err != nil {
			panic(err)
		}
		if len(b) == 0 {
			v.Set(reflect.Zero(t)) // nil: the normal form identifies nil and empty byte strings
		} else {
			v.SetBytes(b)
		}
	case reflect.Struct:
		v.Set(reflect.ValueOf(parseTime(s)))
	default:
		panic("not a scalar: " + t.String())
	}
}

// ---------------------------------------------------------------------------------------------
// GV: Go values
//   {"t":"s","s":canon} {"t":"nil"} {"t":"ptr","p":GV} {"t":"st","f":{GoField:GV}}
//   {"t":"seq","e":[GV]} {"t":"map","m":{k:GV}} {"t":"one","b":branchGoField,"w":GV}

func exportedFields(t reflect.Type) []reflect.StructField {
	var r []reflect.StructField
	for i := 0; i < t.NumField(); i++ {
		f := t.Field(i)
		if strings.HasPrefix(f.Name, "XXX_") || f.PkgPath != "" {
			continue
		}
		r = append(r, f)
	}
	return r
}

// ToGV projects a real Go value into the abstract domain (πgo).
func ToGV(v reflect.Value) J {
	t := v.Type()
	if isScalarType(t) {
		return J{"t": "s", "s": scalarToCanon(v)}
	}
	switch t.Kind() {
	case reflect.Ptr:
		if v.IsNil() {
			return J{"t": "nil"}
		}
		return J{"t": "ptr", "p": ToGV(v.Elem())}
	case reflect.Struct:
		f := J{}
		for _, sf := range exportedFields(t) {
			f[sf.Name] = ToGV(v.FieldByIndex(sf.Index))
		}
		return J{"t": "st", "f": f}
	case reflect.Slice:
		if v.IsNil() {
			return J{"t": "nil"}
		}
		e := make([]interface{}, v.Len())
		for i := range e {
			e[i] = ToGV(v.Index(i))
		}
		return J{"t": "seq", "e": e}
	case reflect.Map:
		if v.IsNil() {
			return J{"t": "nil"}
		}
		m := J{}
		for _, k := range v.MapKeys() {
			m[k.String()] = ToGV(v.MapIndex(k))
		}
		return J{"t": "map", "m": m}
	case reflect.Interface: // oneof holder
		if v.IsNil() {
			return J{"t": "nil"}
		}
		w := v.Elem() // *Msg_Branch
		if w.Kind() != reflect.Ptr || w.IsNil() || w.Elem().Kind() != reflect.Struct {
			return J{"t": "one", "b": "?" + w.Type().String(), "w": J{"t": "nil"}}
		}
		fs := exportedFields(w.Elem().Type())
		if len(fs) != 1 {
			panic("oneof wrapper with !=1 fields: " + w.Type().String())
		}
		return J{"t": "one", "b": fs[0].Name, "w": ToGV(w.Elem().FieldByIndex(fs[0].Index))}
	}
	panic("ToGV: unsupported type " + t.String())
}

// oneofWrappers finds, for the struct type owner, the wrapper struct type whose single field is called branch.
func oneofWrapper(owner reflect.Type, iface reflect.Type, branch string) reflect.Type {
	m, ok := reflect.PtrTo(owner).MethodByName("XXX_OneofWrappers")
	if !ok {
		panic("no XXX_OneofWrappers on " + owner.String())
	}
	out := m.Func.Call([]reflect.Value{reflect.Zero(reflect.PtrTo(owner))})
	ws := out[0].Interface().([]interface{})
	for _, w := range ws {
		wt := reflect.TypeOf(w) // *Msg_Branch
		if !wt.Implements(iface) {
			continue
		}
		fs := exportedFields(wt.Elem())
		if len(fs) == 1 && fs[0].Name == branch {
			return wt.Elem()
		}
	}
	panic(fmt.Sprintf("no oneof wrapper for branch %s of %s", branch, owner))
}

// FromGV builds a real Go value of type t from the abstract value (concretisation).
func FromGV(g J, t reflect.Type) reflect.Value {
	return fromGV(g, t, nil)
}

func fromGV(g J, t reflect.Type, owner reflect.Type) reflect.Value {
	v := reflect.New(t).Elem()
	tag := g["t"].(string)
	if isScalarType(t) {
		if tag != "s" {
			panic(fmt.Sprintf("GV %v for scalar type %s", g, t))
		}
		setScalar(v, g["s"].(string))
		return v
	}
	switch t.Kind() {
	case reflect.Ptr:
		if tag == "nil" {
			return v
		}
		v.Set(reflect.New(t.Elem()))
		v.Elem().Set(fromGV(g["p"].(J), t.Elem(), nil))
	case reflect.Struct:
		fm := g["f"].(J)
		for _, sf := range exportedFields(t) {
			fg, ok := fm[sf.Name]
			if !ok {
				continue // absent ⇒ zero
			}
			v.FieldByIndex(sf.Index).Set(fromGV(fg.(J), sf.Type, t))
		}
	case reflect.Slice:
		if tag == "nil" {
			return v
		}
		e := g["e"].([]interface{})
		v.Set(reflect.MakeSlice(t, len(e), len(e)))
		for i := range e {
			v.Index(i).Set(fromGV(e[i].(J), t.Elem(), nil))
		}
	case reflect.Map:
		if tag == "nil" {
			return v
		}
		m := g["m"].(J)
		v.Set(reflect.MakeMapWithSize(t, len(m)))
		for k, e := range m {
			v.SetMapIndex(reflect.ValueOf(k), fromGV(e.(J), t.Elem(), nil))
		}
	case reflect.Interface:
		if tag == "nil" {
			return v
		}
		wt := oneofWrapper(owner, t, g["b"].(string))
		w := reflect.New(wt)
		fs := exportedFields(wt)
		w.Elem().FieldByIndex(fs[0].Index).Set(fromGV(g["w"].(J), fs[0].Type, nil))
		v.Set(w)
	default:
		panic("FromGV: unsupported type " + t.String())
	}
	return v
}

func sortedKeys(m J) []string {
	r := make([]string, 0, len(m))
	for k := range m {
		r = append(r, k)
	}
	sort.Strings(r)
	return r
}
