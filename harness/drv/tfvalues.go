package drv

import (
	"context"
	"encoding/hex"
	"fmt"
	"math/big"
	"strconv"
	"time"

	"github.com/hashicorp/terraform-plugin-framework/attr"
	"github.com/hashicorp/terraform-plugin-framework/types"
	"github.com/hashicorp/terraform-plugin-go/tftypes"

	"verif/harness/support"
)

// TV: Terraform values
//  {"k":"prim","ty":T,"null":b,"unk":b,"v":canon}
//  {"k":"obj","null":b,"unk":b,"attrs":{n:TV},"at":{n:TT},"attrsnil":b}
//  {"k":"list","null":b,"unk":b,"elems":[TV],"et":TT,"elemsnil":b}
//  {"k":"map","null":b,"unk":b,"mels":{k:TV},"et":TT,"elemsnil":b}
//  {"k":"bad"} {"k":"nilif"} {"k":"other","go":"%T"}
// TT: {"k":"prim","ty":T} {"k":"obj","at":{n:TT}} {"k":"list","et":TT} {"k":"map","et":TT} {"k":"none"} {"k":"other","go":..}

// BadValue is an attr.Value of a Go type no generated code expects.
type BadValue struct{}

func (BadValue) Type(context.Context) attr.Type { return types.StringType }
func (BadValue) ToTerraformValue(context.Context) (tftypes.Value, error) {
	return tftypes.Value{}, fmt.Errorf("bad value")
}
func (BadValue) Equal(o attr.Value) bool { _, ok := o.(BadValue); return ok }
func (BadValue) IsNull() bool            { return false }
func (BadValue) IsUnknown() bool         { return false }
func (BadValue) String() string          { return "bad" }

// TypeToTT projects an attr.Type.
func TypeToTT(t attr.Type) J {
	switch x := t.(type) {
	case nil:
		return J{"k": "none"}
	case types.ObjectType:
		at := J{}
		for n, e := range x.AttrTypes {
			at[n] = TypeToTT(e)
		}
		return J{"k": "obj", "at": at}
	case types.ListType:
		return J{"k": "list", "et": TypeToTT(x.ElemType)}
	case types.MapType:
		return J{"k": "map", "et": TypeToTT(x.ElemType)}
	case support.TimeType:
		return J{"k": "prim", "ty": "time"}
	case support.DurationType:
		return J{"k": "prim", "ty": "duration"}
	case support.OvrStringType:
		return J{"k": "prim", "ty": "ovrstring"}
	case support.OvrIntType:
		return J{"k": "prim", "ty": "ovrint64"}
	}
	switch t {
	case types.StringType:
		return J{"k": "prim", "ty": "string"}
	case types.Int64Type:
		return J{"k": "prim", "ty": "int64"}
	case types.Float64Type:
		return J{"k": "prim", "ty": "float64"}
	case types.BoolType:
		return J{"k": "prim", "ty": "bool"}
	}
	return J{"k": "other", "go": fmt.Sprintf("%T", t)}
}

// TTToType concretises a TT.
func TTToType(tt J) attr.Type {
	switch tt["k"].(string) {
	case "none":
		return nil
	case "obj":
		at := map[string]attr.Type{}
		for n, e := range tt["at"].(J) {
			at[n] = TTToType(e.(J))
		}
		return types.ObjectType{AttrTypes: at}
	case "list":
		return types.ListType{ElemType: TTToType(tt["et"].(J))}
	case "map":
		return types.MapType{ElemType: TTToType(tt["et"].(J))}
	case "prim":
		switch tt["ty"].(string) {
		case "string":
			return types.StringType
		case "int64":
			return types.Int64Type
		case "float64":
			return types.Float64Type
		case "bool":
			return types.BoolType
		case "time":
			return support.TimeType{}
		case "duration":
			return support.DurationType{}
		case "ovrstring":
			return support.OvrStringType{}
		case "ovrint64":
			return support.OvrIntType{}
		}
	}
	panic(fmt.Sprintf("TTToType: %v", tt))
}

func prim(ty string, null, unk bool, v string) J {
	return J{"k": "prim", "ty": ty, "null": null, "unk": unk, "v": v}
}

// ValueToTV projects an attr.Value (πtf).
func ValueToTV(v attr.Value) J {
	switch x := v.(type) {
	case nil:
		return J{"k": "nilif"}
	case BadValue:
		return J{"k": "bad"}
	case types.String:
		return prim("string", x.Null, x.Unknown, hex.EncodeToString([]byte(x.Value)))
	case types.Int64:
		return prim("int64", x.Null, x.Unknown, strconv.FormatInt(x.Value, 10))
	case types.Float64:
		return prim("float64", x.Null, x.Unknown, canonFloat(x.Value))
	case types.Bool:
		return prim("bool", x.Null, x.Unknown, strconv.FormatBool(x.Value))
	case support.TimeValue:
		return prim("time", x.Null, x.Unknown, canonTime(x.Value))
	case support.DurationValue:
		return prim("duration", x.Null, x.Unknown, strconv.FormatInt(int64(x.Value), 10))
	case support.OvrStringValue:
		return prim("ovrstring", x.Null, x.Unknown, hex.EncodeToString([]byte(x.Value)))
	case support.OvrIntValue:
		return prim("ovrint64", x.Null, x.Unknown, strconv.FormatInt(x.Value, 10))
	case types.Object:
		attrs := J{}
		for n, e := range x.Attrs {
			attrs[n] = ValueToTV(e)
		}
		at := J{}
		for n, e := range x.AttrTypes {
			at[n] = TypeToTT(e)
		}
		return J{"k": "obj", "null": x.Null, "unk": x.Unknown, "attrs": attrs, "at": at, "attrsnil": x.Attrs == nil}
	case types.List:
		e := make([]interface{}, len(x.Elems))
		for i := range e {
			e[i] = ValueToTV(x.Elems[i])
		}
		return J{"k": "list", "null": x.Null, "unk": x.Unknown, "elems": e, "et": TypeToTT(x.ElemType), "elemsnil": x.Elems == nil}
	case types.Map:
		e := J{}
		for k, el := range x.Elems {
			e[k] = ValueToTV(el)
		}
		return J{"k": "map", "null": x.Null, "unk": x.Unknown, "mels": e, "et": TypeToTT(x.ElemType), "elemsnil": x.Elems == nil}
	}
	return J{"k": "other", "go": fmt.Sprintf("%T", v)}
}

func jb(j J, k string) bool {
	b, _ := j[k].(bool)
	return b
}

// TVToValue hand-builds an attr.Value from a TV (LoadRaw): payloads under null / unknown are kept.
func TVToValue(tv J) attr.Value {
	switch tv["k"].(string) {
	case "nilif":
		return nil
	case "bad":
		return BadValue{}
	case "prim":
		null, unk, s := jb(tv, "null"), jb(tv, "unk"), tv["v"].(string)
		switch tv["ty"].(string) {
		case "string":
			b, err := hex.DecodeString(s)
			if err != nil {
				panic(err)
			}
			return types.String{Null: null, Unknown: unk, Value: string(b)}
		case "ovrstring":
			b, err := hex.DecodeString(s)
			if err != nil {
				panic(err)
			}
			return support.OvrStringValue{Null: null, Unknown: unk, Value: string(b)}
		case "ovrint64":
			i, err := strconv.ParseInt(s, 10, 64)
			if err != nil {
				panic(err)
			}
			return support.OvrIntValue{Null: null, Unknown: unk, Value: i}
		case "int64":
			i, err := strconv.ParseInt(s, 10, 64)
			if err != nil {
				panic(err)
			}
			return types.Int64{Null: null, Unknown: unk, Value: i}
		case "float64":
			return types.Float64{Null: null, Unknown: unk, Value: parseFloat(s)}
		case "bool":
			b, err := strconv.ParseBool(s)
			if err != nil {
				panic(err)
			}
			return types.Bool{Null: null, Unknown: unk, Value: b}
		case "time":
			return support.TimeValue{Null: null, Unknown: unk, Value: parseTime(s)}
		case "duration":
			i, err := strconv.ParseInt(s, 10, 64)
			if err != nil {
				panic(err)
			}
			return support.DurationValue{Null: null, Unknown: unk, Value: time.Duration(i)}
		}
	case "obj":
		o := types.Object{Null: jb(tv, "null"), Unknown: jb(tv, "unk")}
		if at, ok := tv["at"].(J); ok {
			o.AttrTypes = map[string]attr.Type{}
			for n, e := range at {
				o.AttrTypes[n] = TTToType(e.(J))
			}
		}
		if !jb(tv, "attrsnil") {
			o.Attrs = map[string]attr.Value{}
			for n, e := range tv["attrs"].(J) {
				o.Attrs[n] = TVToValue(e.(J))
			}
		}
		return o
	case "list":
		l := types.List{Null: jb(tv, "null"), Unknown: jb(tv, "unk"), ElemType: TTToType(tv["et"].(J))}
		if !jb(tv, "elemsnil") {
			es := tv["elems"].([]interface{})
			l.Elems = make([]attr.Value, len(es))
			for i := range es {
				l.Elems[i] = TVToValue(es[i].(J))
			}
		}
		return l
	case "map":
		m := types.Map{Null: jb(tv, "null"), Unknown: jb(tv, "unk"), ElemType: TTToType(tv["et"].(J))}
		if !jb(tv, "elemsnil") {
			m.Elems = map[string]attr.Value{}
			for k, e := range tv["mels"].(J) {
				m.Elems[k] = TVToValue(e.(J))
			}
		}
		return m
	}
	panic(fmt.Sprintf("TVToValue: %v", tv))
}

// TVToTerraform renders tv as a tftypes.Value of the Terraform type of t: the wire value a plan /
// state / config of that type would carry.  Attributes of t missing from tv become null.
func TVToTerraform(ctx context.Context, tv J, t attr.Type) tftypes.Value {
	tt := t.TerraformType(ctx)
	if tv == nil {
		return tftypes.NewValue(tt, nil)
	}
	if jb(tv, "unk") {
		return tftypes.NewValue(tt, tftypes.UnknownValue)
	}
	if jb(tv, "null") {
		return tftypes.NewValue(tt, nil)
	}
	switch tv["k"].(string) {
	case "prim":
		s := tv["v"].(string)
		switch tv["ty"].(string) {
		case "string", "ovrstring":
			b, err := hex.DecodeString(s)
			if err != nil {
				panic(err)
			}
			return tftypes.NewValue(tt, string(b))
		case "int64", "ovrint64":
			i, err := strconv.ParseInt(s, 10, 64)
			if err != nil {
				panic(err)
			}
			return tftypes.NewValue(tt, new(big.Float).SetInt64(i))
		case "float64":
			return tftypes.NewValue(tt, big.NewFloat(parseFloat(s)))
		case "bool":
			b, _ := strconv.ParseBool(s)
			return tftypes.NewValue(tt, b)
		case "time":
			return tftypes.NewValue(tt, parseTime(s).Format(time.RFC3339Nano))
		case "duration":
			i, _ := strconv.ParseInt(s, 10, 64)
			return tftypes.NewValue(tt, time.Duration(i).String())
		}
	case "obj":
		ot := t.(types.ObjectType)
		attrs := tv["attrs"].(J)
		m := map[string]tftypes.Value{}
		for n, et := range ot.AttrTypes {
			sub, _ := attrs[n].(J)
			m[n] = TVToTerraform(ctx, sub, et)
		}
		return tftypes.NewValue(tt, m)
	case "list":
		et := t.(types.ListType).ElemType
		es := tv["elems"].([]interface{})
		l := make([]tftypes.Value, len(es))
		for i := range es {
			l[i] = TVToTerraform(ctx, es[i].(J), et)
		}
		return tftypes.NewValue(tt, l)
	case "map":
		et := t.(types.MapType).ElemType
		m := map[string]tftypes.Value{}
		for k, e := range tv["mels"].(J) {
			m[k] = TVToTerraform(ctx, e.(J), et)
		}
		return tftypes.NewValue(tt, m)
	}
	panic(fmt.Sprintf("TVToTerraform: %v", tv))
}

// fillAbsent returns a copy of v in which every attribute type without a value (at any non-null object
// level) gets a null value of its type — "once the injected attributes are filled in" (C03).
func fillAbsent(ctx context.Context, v attr.Value) attr.Value {
	switch x := v.(type) {
	case types.Object:
		if x.Null || x.Unknown {
			return x
		}
		n := types.Object{AttrTypes: x.AttrTypes, Attrs: map[string]attr.Value{}}
		for k, e := range x.Attrs {
			n.Attrs[k] = fillAbsent(ctx, e)
		}
		for k, t := range x.AttrTypes {
			if _, ok := n.Attrs[k]; !ok && t != nil {
				nv, err := t.ValueFromTerraform(ctx, tftypes.NewValue(t.TerraformType(ctx), nil))
				if err == nil {
					n.Attrs[k] = nv
				}
			}
		}
		return n
	case types.List:
		if x.Null || x.Unknown {
			return x
		}
		n := types.List{ElemType: x.ElemType, Elems: make([]attr.Value, len(x.Elems))}
		for i, e := range x.Elems {
			n.Elems[i] = fillAbsent(ctx, e)
		}
		return n
	case types.Map:
		if x.Null || x.Unknown {
			return x
		}
		n := types.Map{ElemType: x.ElemType, Elems: map[string]attr.Value{}}
		for k, e := range x.Elems {
			n.Elems[k] = fillAbsent(ctx, e)
		}
		return n
	}
	return v
}

// Convertible is the C03 observer: after filling absent (injected) attributes the object converts to a
// Terraform value of exactly the schema's Terraform type and the schema type decodes it again.
func Convertible(ctx context.Context, o types.Object, schemaType attr.Type) (ok bool, why string) {
	defer func() {
		if r := recover(); r != nil {
			ok, why = false, fmt.Sprintf("panic: %v", r)
		}
	}()
	f := fillAbsent(ctx, o)
	tv, err := f.ToTerraformValue(ctx)
	if err != nil {
		return false, "ToTerraformValue: " + err.Error()
	}
	want := schemaType.TerraformType(ctx)
	if !tv.Type().Equal(want) {
		return false, fmt.Sprintf("terraform type %s, schema wants %s", tv.Type(), want)
	}
	if _, err := schemaType.ValueFromTerraform(ctx, tv); err != nil {
		return false, "ValueFromTerraform: " + err.Error()
	}
	return true, ""
}

// NilEmptyElems returns v with the Elems of every known, non-null, EMPTY list / map that tv marks "elemsnil" set to nil:
// the form in which provider code (defaults, plan modifiers) writes an empty collection into a plan.  The framework's own
// decoder always allocates Elems; both forms denote the same Terraform value.
func NilEmptyElems(v attr.Value, tv J) attr.Value {
	if tv == nil {
		return v
	}
	switch x := v.(type) {
	case types.Object:
		if x.Null || x.Unknown || x.Attrs == nil {
			return x
		}
		attrs, _ := tv["attrs"].(J)
		for k, a := range x.Attrs {
			if sub, ok := attrs[k].(J); ok {
				x.Attrs[k] = NilEmptyElems(a, sub)
			}
		}
		return x
	case types.List:
		if x.Null || x.Unknown {
			return x
		}
		if len(x.Elems) == 0 {
			if jb(tv, "elemsnil") {
				x.Elems = nil
			}
			return x
		}
		elems, _ := tv["elems"].([]interface{})
		for i := range x.Elems {
			if i < len(elems) {
				if sub, ok := elems[i].(J); ok {
					x.Elems[i] = NilEmptyElems(x.Elems[i], sub)
				}
			}
		}
		return x
	case types.Map:
		if x.Null || x.Unknown {
			return x
		}
		if len(x.Elems) == 0 {
			if jb(tv, "elemsnil") {
				x.Elems = nil
			}
			return x
		}
		mels, _ := tv["mels"].(J)
		for k := range x.Elems {
			if sub, ok := mels[k].(J); ok {
				x.Elems[k] = NilEmptyElems(x.Elems[k], sub)
			}
		}
		return x
	}
	return v
}
