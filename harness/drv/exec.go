package drv

import (
	"bufio"
	"context"
	"encoding/json"
	"fmt"
	"os"
	"reflect"
	"runtime/debug"
	"strings"
	"sync"

	"github.com/hashicorp/terraform-plugin-framework/attr"
	"github.com/hashicorp/terraform-plugin-framework/diag"
	"github.com/hashicorp/terraform-plugin-framework/tfsdk"
	"github.com/hashicorp/terraform-plugin-framework/types"
)

// Entry binds one generated root type.
type Entry struct {
	New    func() interface{} // *T
	Schema func(context.Context) (tfsdk.Schema, diag.Diagnostics)
	From   func(context.Context, types.Object, interface{}) diag.Diagnostics
	To     func(context.Context, interface{}, *types.Object) diag.Diagnostics
}

var registry = map[string]Entry{}

// Register is called from the generated registry files.
func Register(key string, e Entry) { registry[key] = e }

// ---------------------------------------------------------------------------------------------
// custom-type hooks (C17): generic implementations the generated per-suffix hooks delegate to

var (
	hookMu  sync.Mutex
	hookLog []interface{}
)

func recordHook(j J) {
	hookMu.Lock()
	hookLog = append(hookLog, j)
	hookMu.Unlock()
}

func drainHooks() []interface{} {
	hookMu.Lock()
	defer hookMu.Unlock()
	r := hookLog
	hookLog = nil
	if r == nil {
		r = []interface{}{}
	}
	return r
}

const hookDescPrefix = "hook:"

// HookSchema is GenSchema<S>: returns a String attribute carrying everything it was given.
func HookSchema(suffix string, a tfsdk.Attribute) tfsdk.Attribute {
	recordHook(J{"hook": "GenSchema", "suffix": suffix, "attr": AttrToJ(a)})
	r := a
	r.Type = types.StringType
	r.Attributes = nil
	r.Description = hookDescPrefix + suffix
	if a.Description != "" {
		r.Description += " " + a.Description
	}
	return r
}

// HookFrom is CopyFrom<S>.
func HookFrom(suffix string, diags diag.Diagnostics, v attr.Value, ptr interface{}) {
	pv := reflect.ValueOf(ptr)
	recordHook(J{"hook": "CopyFrom", "suffix": suffix, "value": ValueToTV(v), "isptr": pv.Kind() == reflect.Ptr,
		"fieldtype": pv.Type().String()})
	s, ok := v.(types.String)
	if !ok || pv.Kind() != reflect.Ptr || pv.IsNil() {
		return
	}
	if s.Null || s.Unknown {
		pv.Elem().Set(reflect.Zero(pv.Elem().Type()))
		return
	}
	var g J
	if err := json.Unmarshal([]byte(s.Value), &g); err != nil {
		return
	}
	func() {
		defer func() { recover() }()
		pv.Elem().Set(FromGV(g, pv.Elem().Type()))
	}()
}

// HookTo is CopyTo<S>.
func HookTo(suffix string, diags diag.Diagnostics, field interface{}, t attr.Type, cur attr.Value) attr.Value {
	g := ToGV(reflect.ValueOf(field))
	b, _ := json.Marshal(g)
	ret := types.String{Value: string(b)}
	recordHook(J{"hook": "CopyTo", "suffix": suffix, "field": g, "type": TypeToTT(t), "cur": ValueToTV(cur), "ret": ValueToTV(ret)})
	return ret
}

// ---------------------------------------------------------------------------------------------

type session struct {
	e          Entry
	schema     tfsdk.Schema
	schemaType attr.Type
	obj        interface{} // *T
	tf         types.Object
}

func safely(f func()) (p string) {
	defer func() {
		if r := recover(); r != nil {
			st := string(debug.Stack())
			// keep the frames of generated code only: short and stable enough for a report
			lines := strings.Split(st, "\n")
			keep := []string{}
			for _, l := range lines {
				if strings.Contains(l, "_terraform.go") {
					keep = append(keep, strings.TrimSpace(l))
				}
			}
			if len(keep) > 3 {
				keep = keep[:3]
			}
			p = fmt.Sprintf("%v @ %s", r, strings.Join(keep, " <- "))
			if p == "" {
				p = "panic"
			}
		}
	}()
	f()
	return ""
}

func (s *session) state(line J) J {
	line["obj"] = ToGV(reflect.ValueOf(s.obj).Elem())
	line["tf"] = ValueToTV(s.tf)
	return line
}

// Main runs the behaviours of vectorFile against the registered generated code and writes the trace.
func Main() {
	if len(os.Args) > 1 && os.Args[1] == "-sweep32" {
		sweepMain(os.Args[2:])
		return
	}
	if len(os.Args) != 3 {
		fmt.Fprintln(os.Stderr, "usage: driver <vectors.ndjson> <trace.ndjson>")
		os.Exit(2)
	}
	in, err := os.Open(os.Args[1])
	if err != nil {
		fmt.Fprintln(os.Stderr, err)
		os.Exit(2)
	}
	defer in.Close()
	out, err := os.Create(os.Args[2])
	if err != nil {
		fmt.Fprintln(os.Stderr, err)
		os.Exit(2)
	}
	w := bufio.NewWriterSize(out, 1<<20)
	emit := func(j J) {
		b, err := json.Marshal(j)
		if err != nil {
			panic(err)
		}
		w.Write(b)
		w.WriteByte('\n')
	}
	ctx := context.Background()
	sc := bufio.NewScanner(in)
	sc.Buffer(make([]byte, 1<<20), 1<<28)
	n := 0
	for sc.Scan() {
		if len(strings.TrimSpace(sc.Text())) == 0 {
			continue
		}
		var b J
		if err := json.Unmarshal(sc.Bytes(), &b); err != nil {
			fmt.Fprintln(os.Stderr, "bad vector line:", err)
			os.Exit(2)
		}
		n++
		runBehaviour(ctx, b, emit)
	}
	if err := sc.Err(); err != nil {
		fmt.Fprintln(os.Stderr, err)
		os.Exit(2)
	}
	w.Flush()
	out.Close()
	fmt.Fprintf(os.Stderr, "driver: %d behaviours\n", n)
}

func runBehaviour(ctx context.Context, b J, emit func(J)) {
	key := b["key"].(string)
	reset := J{"ev": "Reset", "id": b["id"], "key": key, "meta": b["meta"]}
	e, ok := registry[key]
	reset["registered"] = ok
	if !ok {
		reset["schema"] = J{"attrs": J{}}
		reset["schemadiags"] = []interface{}{}
		reset["hooks"] = []interface{}{}
		reset["panic"] = ""
		emit(reset)
		return
	}
	s := &session{e: e}
	drainHooks()
	var sd diag.Diagnostics
	p := safely(func() { s.schema, sd = e.Schema(ctx) })
	reset["panic"] = p
	reset["schema"] = SchemaToJ(s.schema)
	reset["schemadiags"] = DiagsToJ(sd)
	reset["hooks"] = drainHooks()
	emit(reset)
	if p != "" {
		return
	}
	s.schemaType = s.schema.AttributeType()
	s.obj = e.New()
	s.tf = types.Object{}
	steps, _ := b["steps"].([]interface{})
	for _, st := range steps {
		step := st.(J)
		ev := step["ev"].(string)
		line := J{"ev": ev, "diags": []interface{}{}, "panic": "", "conv": false, "convwhy": "", "hooks": []interface{}{}, "err": ""}
		herr := safely(func() {
			switch ev {
			case "SetObj":
				t := reflect.TypeOf(s.obj).Elem()
				v := FromGV(step["obj"].(J), t)
				nv := reflect.New(t)
				nv.Elem().Set(v)
				s.obj = nv.Interface()
			case "FreshObj":
				s.obj = e.New()
			case "NewEmpty":
				ot := s.schemaType.(types.ObjectType)
				s.tf = types.Object{AttrTypes: ot.AttrTypes, Null: jb(step, "null"), Unknown: jb(step, "unk")}
				if !jb(step, "nilattrs") {
					s.tf.Attrs = map[string]attr.Value{}
				}
			case "LoadRaw":
				s.tf = TVToValue(step["tf"].(J)).(types.Object)
			case "LoadPlan":
				tv := TVToTerraform(ctx, step["tf"].(J), s.schemaType)
				v, err := s.schemaType.ValueFromTerraform(ctx, tv)
				if err != nil {
					line["err"] = err.Error()
					return
				}
				s.tf = NilEmptyElems(v, step["tf"].(J)).(types.Object)
			case "CopyTo":
				var d diag.Diagnostics
				drainHooks()
				line["panic"] = safely(func() { d = e.To(ctx, s.obj, &s.tf) })
				line["diags"] = DiagsToJ(d)
				line["hooks"] = drainHooks()
				c, why := Convertible(ctx, s.tf, s.schemaType)
				line["conv"], line["convwhy"] = c, why
			case "CopyFrom":
				var d diag.Diagnostics
				drainHooks()
				line["panic"] = safely(func() { d = e.From(ctx, s.tf, s.obj) })
				line["diags"] = DiagsToJ(d)
				line["hooks"] = drainHooks()
			default:
				panic("unknown step " + ev)
			}
		})
		if herr != "" {
			emit(J{"ev": "HarnessError", "step": step, "err": herr})
			return
		}
		emit(s.state(line))
	}
}
