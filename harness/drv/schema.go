package drv

import (
	"fmt"
	"regexp"
	"strings"

	"github.com/hashicorp/terraform-plugin-framework/diag"
	"github.com/hashicorp/terraform-plugin-framework/tfsdk"

	"verif/harness/support"
)

func tagOfValidator(v tfsdk.AttributeValidator) string {
	if t, ok := v.(support.TagValidator); ok {
		return "V" + t.Tag
	}
	return fmt.Sprintf("%T", v)
}

func tagOfPlanModifier(v tfsdk.AttributePlanModifier) string {
	if t, ok := v.(support.TagPlanModifier); ok {
		return "PM" + t.Tag
	}
	if fmt.Sprintf("%T", v) == fmt.Sprintf("%T", tfsdk.UseStateForUnknown()) {
		return "USFU"
	}
	return fmt.Sprintf("%T", v)
}

// AttrToJ projects one schema attribute (πschema).
func AttrToJ(a tfsdk.Attribute) J {
	words := []interface{}{}
	for _, w := range strings.Fields(a.Description) {
		words = append(words, w)
	}
	r := J{
		"required": a.Required, "optional": a.Optional, "computed": a.Computed, "sensitive": a.Sensitive,
		"desc": a.Description, "mode": "none", "sub": J{},
		// projection of the description for the specification, which has no string functions: its words, and
		// whether it is one trimmed line (no line breaks, no leading / trailing blanks)
		"descw":     words,
		"descclean": !strings.ContainsAny(a.Description, "\n\r") && strings.TrimSpace(a.Description) == a.Description,
	}
	vs := []interface{}{}
	for _, v := range a.Validators {
		vs = append(vs, tagOfValidator(v))
	}
	r["validators"] = vs
	ps := []interface{}{}
	for _, v := range a.PlanModifiers {
		ps = append(ps, tagOfPlanModifier(v))
	}
	r["planmods"] = ps
	if a.Attributes != nil {
		switch a.Attributes.GetNestingMode() {
		case tfsdk.NestingModeSingle:
			r["mode"] = "single"
		case tfsdk.NestingModeList:
			r["mode"] = "list"
		case tfsdk.NestingModeMap:
			r["mode"] = "map"
		default:
			r["mode"] = "otherMode"
		}
		sub := J{}
		for n, s := range a.Attributes.GetAttributes() {
			sub[n] = AttrToJ(s)
		}
		r["sub"] = sub
		r["type"] = TypeToTT(a.Attributes.AttributeType())
		r["hastype"] = a.Type != nil
	} else {
		r["type"] = TypeToTT(a.Type)
		r["hastype"] = a.Type != nil
	}
	return r
}

// SchemaToJ projects a schema.
func SchemaToJ(s tfsdk.Schema) J {
	attrs := J{}
	for n, a := range s.Attributes {
		attrs[n] = AttrToJ(a)
	}
	return J{"attrs": attrs}
}

var (
	reReadMissing  = regexp.MustCompile(`^A value for (.*) is missing in the source Terraform object Attrs$`)
	reWriteMissing = regexp.MustCompile(`^A value for (.*) is missing in the source Terraform object AttrTypes$`)
	reConversion   = regexp.MustCompile(`^A value for (.*) can not be converted to (.*)$`)
	reGeneral      = regexp.MustCompile(`^([^:]*): (.*)$`)
)

// DiagsToJ projects diagnostics (πdiag): severity, kind, path, and the raw texts.
var rePathToken = regexp.MustCompile(`[A-Za-z_][A-Za-z0-9_]*(?:\.[A-Za-z0-9_]+)+`)

func DiagsToJ(ds diag.Diagnostics) []interface{} {
	r := []interface{}{}
	for _, d := range ds {
		sev := "warning"
		if d.Severity() == diag.SeverityError {
			sev = "error"
		}
		kind, path, typ := "other", "", ""
		sum, det := d.Summary(), d.Detail()
		reading := sum == "Error reading from Terraform object"
		writing := sum == "Error writing to Terraform object"
		if m := reReadMissing.FindStringSubmatch(det); m != nil && reading {
			kind, path = "readMissing", m[1]
		} else if m := reWriteMissing.FindStringSubmatch(det); m != nil && writing {
			kind, path = "writeMissing", m[1]
		} else if m := reConversion.FindStringSubmatch(det); m != nil && reading {
			kind, path, typ = "readConversion", m[1], m[2]
		} else if m := reConversion.FindStringSubmatch(det); m != nil && writing {
			kind, path, typ = "writeConversion", m[1], m[2]
		} else if m := reGeneral.FindStringSubmatch(det); m != nil && writing {
			kind, path = "writeGeneral", m[1]
		}
		// every dotted name the diagnostic mentions: a diagnostic with another wording still "names the field's path"
		paths := []interface{}{}
		for _, m := range rePathToken.FindAllString(sum+" "+det, -1) {
			paths = append(paths, m)
		}
		r = append(r, J{"sev": sev, "kind": kind, "path": path, "type": typ, "summary": sum, "detail": det, "paths": paths})
	}
	return r
}
