// Package pipeline runs the real generator (built from /repo's working tree) and protoc-gen-gogo on
// concretised requests, lays the outputs out as Go packages, compiles them with the generic driver and
// runs behaviours.  See DESIGN.md §5.1.
package pipeline

import (
	"bytes"
	"crypto/sha256"
	"encoding/hex"
	"encoding/json"
	"fmt"
	"go/ast"
	"go/parser"
	"go/printer"
	"go/token"
	"io/ioutil"
	"math/rand"
	"os"
	"os/exec"
	"path/filepath"
	"regexp"
	"sort"
	"strings"
	"sync"

	"github.com/gogo/protobuf/proto"
	plugin "github.com/gogo/protobuf/protoc-gen-gogo/plugin"
	gproto "google.golang.org/protobuf/proto"
	"google.golang.org/protobuf/types/pluginpb"

	"verif/harness/absd"
	"verif/harness/concretise"
)

const (
	SupportImport = "verif/harness/support"
	TargetPkg     = "tfout"
)

// RepoDir is the tree the plugin is built from: /repo's working tree.  VERIF_REPO points the development aids
// (soundness runs against scratch worktrees, tools/benigncheck.sh) somewhere else; such runs write no evidence.
var RepoDir = "/repo"

// HarnessDir is the harness module generated packages link against; set from the verification root.
var HarnessDir = "/verif/harness"

// Env is one working directory with built tools.
type Env struct {
	W         string // scratch root
	PluginBin string
	GogoBin   string
	WS        string // go workspace module dir
	GoEnv     []string
	BuildTags string
}

func goEnv() []string {
	env := os.Environ()
	env = append(env, "GOFLAGS=-mod=mod", "GOPROXY=off", "GOSUMDB=off", "GOTOOLCHAIN=local", "CGO_ENABLED=0")
	return env
}

func run(dir string, env []string, stdin []byte, name string, args ...string) (stdout, stderr []byte, exit int, err error) {
	cmd := exec.Command(name, args...)
	cmd.Dir = dir
	cmd.Env = env
	if stdin != nil {
		cmd.Stdin = bytes.NewReader(stdin)
	}
	var so, se bytes.Buffer
	cmd.Stdout, cmd.Stderr = &so, &se
	err = cmd.Run()
	exit = 0
	if err != nil {
		if ee, ok := err.(*exec.ExitError); ok {
			exit = ee.ExitCode()
			err = nil
		} else {
			exit = -1
		}
	}
	return so.Bytes(), se.Bytes(), exit, err
}

// NewEnv builds the plugin from /repo's current working tree and protoc-gen-gogo from the module cache.
func NewEnv(w string) (*Env, error) {
	e := &Env{W: w, GoEnv: goEnv(), BuildTags: "verif"}
	if err := os.MkdirAll(filepath.Join(w, "bin"), 0o755); err != nil {
		return nil, err
	}
	e.PluginBin = filepath.Join(w, "bin", "protoc-gen-terraform")
	e.GogoBin = filepath.Join(w, "bin", "protoc-gen-gogo")
	// development aid: VERIF_COVER=<dir> builds the plugin with coverage instrumentation; every run of it then writes its
	// counters to <dir> (GOCOVERDIR), so that the statements of the generator no shape reaches can be listed
	// (go tool covdata textfmt -i=<dir> -o=profile ; go tool cover -func=profile)
	buildArgs := []string{"build", "-tags", e.BuildTags, "-o", e.PluginBin, "."}
	if cd := os.Getenv("VERIF_COVER"); cd != "" {
		buildArgs = []string{"build", "-cover", "-tags", e.BuildTags, "-o", e.PluginBin, "."}
		if err := os.MkdirAll(cd, 0o755); err != nil {
			return nil, err
		}
		e.GoEnv = append(e.GoEnv, "GOCOVERDIR="+cd)
	}
	_, se, ex, err := run(RepoDir, e.GoEnv, nil, "go", buildArgs...)
	if err != nil || ex != 0 {
		return nil, fmt.Errorf("building the plugin from %s failed: %v\n%s", RepoDir, err, se)
	}
	_, se, ex, err = run(RepoDir, e.GoEnv, nil, "go", "build", "-o", e.GogoBin, "github.com/gogo/protobuf/protoc-gen-gogo")
	if err != nil || ex != 0 {
		return nil, fmt.Errorf("building protoc-gen-gogo failed: %v\n%s", err, se)
	}
	e.WS = filepath.Join(w, "ws")
	if err := os.MkdirAll(e.WS, 0o755); err != nil {
		return nil, err
	}
	hm, err := ioutil.ReadFile(filepath.Join(HarnessDir, "go.mod"))
	if err != nil {
		return nil, err
	}
	req := string(hm)[strings.Index(string(hm), "require"):]
	gomod := "module ws\n\ngo 1.18\n\nrequire verif/harness v0.0.0\n\nreplace verif/harness => " + HarnessDir + "\n\n" + req
	if err := ioutil.WriteFile(filepath.Join(e.WS, "go.mod"), []byte(gomod), 0o644); err != nil {
		return nil, err
	}
	sum, err := ioutil.ReadFile(filepath.Join(HarnessDir, "go.sum"))
	if err != nil {
		return nil, err
	}
	if err := ioutil.WriteFile(filepath.Join(e.WS, "go.sum"), sum, 0o644); err != nil {
		return nil, err
	}
	return e, nil
}

// Variant is one (descriptor, configuration) pair to generate.
type Variant struct {
	Key    string // directory name below ws/
	D      absd.Desc
	C      absd.Cfg
	Seed   int64 // 0 = canonical order of YAML / CLI entries
	NoGogo bool  // only run the plugin (process-level checks)
}

// FuncInfo is one top-level function of the generated file.
type FuncInfo struct {
	Name   string `json:"name"`
	Sig    string `json:"sig"`
	NSig   string `json:"nsig"`   // types only, package qualifiers normalised (tfsdk. diag. types. context.)
	Method bool   `json:"method"` // has a receiver (shared diagnostic types)
	// API: the name has one of the three documented forms (GenSchema<T>, Copy<T>FromTerraform, Copy<T>ToTerraform).
	// The properties speak about exactly these functions; helpers of the shared code are not theirs to judge.
	API  bool   `json:"api"`
	Text string `json:"-"`
	Sha  string `json:"sha"`
}

// AltResult is what was observed of an alternative rendering of a run.
type AltResult struct {
	Name       string `json:"name"`
	Exit       int    `json:"exit"`
	Sha        string `json:"sha"`
	ContentSha string `json:"contentsha"`
	Files      int    `json:"files"`
}

// GenResult is what was observed of one plugin run.
type GenResult struct {
	Key        string     `json:"key"`
	Exit       int        `json:"exit"`
	Stderr     string     `json:"-"`
	StdoutLen  int        `json:"stdoutlen"`
	DecodeOK   bool       `json:"decodeok"`  // stdout is exactly one well-formed response
	RespError  string     `json:"resperror"` // response.error
	Features   int        `json:"features"`
	Files      []string   `json:"files"`
	FileBase   string     `json:"filebase"` // base name of the single output file
	Content    string     `json:"-"`
	Sha        string     `json:"sha"`        // sha256 of the raw stdout
	ContentSha string     `json:"contentsha"` // sha256 of the generated file
	LicenseOK  bool       `json:"licenseok"`
	Package    string     `json:"package"`
	Funcs      []FuncInfo `json:"funcs"`
	Types      []string   `json:"typesdecl"` // top-level type declarations
	Imports    []string   `json:"imports"`
	ParseErr   string     `json:"parseerr"`
	Warned     []string   `json:"warned"` // message names in "failed to build the message X" log lines
	// Named: message names of the descriptor that some log line of level warning / error (or any line not marked
	// info / debug) mentions as a whole word, whatever its wording ("a diagnostic naming the type is logged")
	Named        []string    `json:"named"`
	Processing   []string    `json:"processing"`
	Compile      string      `json:"compile"` // "" ok, else compiler output (set by Build)
	Param        string      `json:"param"`
	Yaml         string      `json:"yaml"`
	StructImport string      `json:"structimport"`
	TargetDir    string      `json:"-"`
	TargetImport string      `json:"targetimport"`
	Registered   []string    `json:"registered"`
	Alts         []AltResult `json:"alts"`
}

// structDir: directory (= last import path element) of the struct package
func structDir(v Variant) string {
	if v.C.DottedImport {
		return v.D.Pkg + ".v1"
	}
	if v.C.CapsImport {
		return "RootLeafMidOuterInnerTypes"
	}
	return v.D.Pkg
}

func (e *Env) layout(v Variant) concretise.Layout {
	return concretise.Layout{
		StructImport:  "ws/" + v.Key + "/" + structDir(v),
		SupportImport: SupportImport,
		DepImportBase: "ws/" + v.Key,
		TargetPkg:     targetName(v),
	}
}

// targetName: the package NAME of a separate target package (its directory is always TargetPkg)
func targetName(v Variant) string {
	if v.C.SameName {
		return v.D.Pkg
	}
	return TargetPkg
}

var (
	reWarn = regexp.MustCompile(`failed to build the message (\S+?)"`)
	reProc = regexp.MustCompile(`Processing: (\S+?)"`)
)

var license []byte

// Generate runs the real plugin (and protoc-gen-gogo) for v and writes the package files.
func (e *Env) Generate(v Variant) (*GenResult, error) {
	l := e.layout(v)
	req := concretise.Request(v.D, l)
	var rng *rand.Rand
	if v.Seed != 0 {
		rng = rand.New(rand.NewSource(v.Seed))
	}
	yaml, cli := concretise.Config(v.C, l, rng)
	vdir := filepath.Join(e.WS, v.Key)
	if err := os.MkdirAll(vdir, 0o755); err != nil {
		return nil, err
	}
	params := cli
	switch v.C.Fault {
	case "emptytypes":
		// no types anywhere, but the parameter is there with an empty / blank value (types=$UNSET)
		p := filepath.Join(vdir, "config.yaml")
		if err := ioutil.WriteFile(p, []byte(yaml), 0o644); err != nil {
			return nil, err
		}
		params = append([]string{"config=" + p, "types= "}, params...)
	case "noconfig":
	case "missingfile":
		params = append([]string{"config=" + filepath.Join(vdir, "does-not-exist.yaml")}, params...)
	case "malformed":
		p := filepath.Join(vdir, "config.yaml")
		if err := ioutil.WriteFile(p, []byte("types: [A\n  - : :\n\t{{"), 0o644); err != nil {
			return nil, err
		}
		params = append([]string{"config=" + p}, params...)
	case "mistypedlist", "mistypedbool", "mistypedmap":
		// well-formed YAML that cannot be PARSED INTO the configuration: a value of the wrong type for a known option
		bad := map[string]string{
			"mistypedlist": "exclude_fields: Root.Extra\n",
			"mistypedbool": "sort: sometimes\n",
			"mistypedmap":  "computed_fields:\n  Root.Str: true\n",
		}[v.C.Fault]
		p := filepath.Join(vdir, "config.yaml")
		if err := ioutil.WriteFile(p, []byte(yaml+bad), 0o644); err != nil {
			return nil, err
		}
		params = append([]string{"config=" + p}, params...)
	default:
		p := filepath.Join(vdir, "config.yaml")
		if err := ioutil.WriteFile(p, []byte(yaml), 0o644); err != nil {
			return nil, err
		}
		params = append([]string{"config=" + p}, params...)
	}
	param := strings.Join(params, ",")
	req.Parameter = proto.String(param)
	reqBytes, err := proto.Marshal(req)
	if err != nil {
		return nil, err
	}
	_ = ioutil.WriteFile(filepath.Join(vdir, "request.bin"), reqBytes, 0o644)
	so, se, ex, err := run(vdir, e.GoEnv, reqBytes, e.PluginBin)
	if err != nil {
		return nil, fmt.Errorf("running the plugin: %v", err)
	}
	sum := sha256.Sum256(so)
	r := &GenResult{Key: v.Key, Exit: ex, Stderr: string(se), StdoutLen: len(so), Sha: hex.EncodeToString(sum[:]),
		Param: param, Yaml: yaml, StructImport: l.StructImport, Files: []string{}, Funcs: []FuncInfo{}, Types: []string{},
		Imports: []string{}, Warned: []string{}, Processing: []string{}, Registered: []string{}}
	for _, m := range reWarn.FindAllStringSubmatch(r.Stderr, -1) {
		r.Warned = append(r.Warned, m[1])
	}
	for _, m := range reProc.FindAllStringSubmatch(r.Stderr, -1) {
		r.Processing = append(r.Processing, m[1])
	}
	r.Named = []string{}
	for _, m := range v.D.Msgs {
		re := regexp.MustCompile(`(^|[^A-Za-z0-9_])` + regexp.QuoteMeta(m.Name) + `($|[^A-Za-z0-9_])`)
		for _, line := range strings.Split(r.Stderr, "\n") {
			if strings.Contains(line, "level=info") || strings.Contains(line, "level=debug") {
				continue
			}
			if re.MatchString(line) {
				r.Named = append(r.Named, m.Name)
				break
			}
		}
	}
	resp := &pluginpb.CodeGeneratorResponse{}
	if len(so) > 0 {
		if err := (gproto.UnmarshalOptions{DiscardUnknown: false}).Unmarshal(so, resp); err == nil && len(resp.ProtoReflect().GetUnknown()) == 0 {
			// canonical re-encoding must reproduce the bytes: nothing but one response on stdout
			re, err2 := (gproto.MarshalOptions{Deterministic: true}).Marshal(resp)
			r.DecodeOK = err2 == nil && bytes.Equal(re, so)
		}
	}
	r.RespError = resp.GetError()
	r.Features = int(resp.GetSupportedFeatures())
	for _, f := range resp.GetFile() {
		r.Files = append(r.Files, f.GetName())
	}
	if len(resp.GetFile()) >= 1 {
		r.Content = resp.GetFile()[0].GetContent()
		r.FileBase = filepath.Base(resp.GetFile()[0].GetName())
		cs := sha256.Sum256([]byte(r.Content))
		r.ContentSha = hex.EncodeToString(cs[:])
	}
	if license == nil {
		license, _ = ioutil.ReadFile(filepath.Join(RepoDir, "license.txt"))
	}
	r.LicenseOK = len(license) > 0 && strings.HasPrefix(r.Content, string(license))
	if r.Content != "" {
		analyse(r)
	}
	r.Alts = []AltResult{}
	for ai, alt := range v.C.Alts {
		ac := v.C
		ac.Channel = alt.Channel
		ac.YamlStyle = alt.YamlStyle
		ac.BoolStyle = alt.BoolStyle
		ac.CliGap = alt.CliGap
		ad := v.D
		if len(alt.Msgs) > 0 {
			ad.Msgs = alt.Msgs
		}
		areq := concretise.Request(ad, l)
		var arng *rand.Rand
		if alt.Perm != 0 {
			arng = rand.New(rand.NewSource(int64(alt.Perm)*7919 + v.Seed))
		}
		ayaml, acli := concretise.Config(ac, l, arng)
		if alt.EmptyCLI {
			for _, name := range []string{"types", "exclude_fields", "computed_fields", "required_fields", "sensitive"} {
				given := false
				for _, p := range acli {
					if strings.HasPrefix(p, name+"=") {
						given = true
					}
				}
				if !given {
					acli = append(acli, name+"=")
				}
			}
		}
		ap := filepath.Join(vdir, fmt.Sprintf("config-alt%d.yaml", ai))
		if alt.CfgFile != "" {
			if strings.TrimSpace(strings.TrimPrefix(ayaml, "---")) != "" {
				return nil, fmt.Errorf("alternative %s of %s: cfgfile=%s needs a configuration that fits on the command line, the YAML part is\n%s", alt.Name, v.Key, alt.CfgFile, ayaml)
			}
			switch alt.CfgFile {
			case "empty":
				ayaml = ""
			case "comments":
				ayaml = "# configuration of the generator\n#types:\n#  - \"Root\"\n\n# sort: true\n"
			}
		}
		if err := ioutil.WriteFile(ap, []byte(ayaml), 0o644); err != nil {
			return nil, err
		}
		if alt.CfgFile == "none" {
			areq.Parameter = proto.String(strings.Join(acli, ","))
		} else {
			areq.Parameter = proto.String(strings.Join(append([]string{"config=" + ap}, acli...), ","))
		}
		ab, err := proto.Marshal(areq)
		if err != nil {
			return nil, err
		}
		aso, _, aex, err := run(vdir, e.GoEnv, ab, e.PluginBin)
		if err != nil {
			return nil, fmt.Errorf("running the plugin (alt %s): %v", alt.Name, err)
		}
		asum := sha256.Sum256(aso)
		ar := AltResult{Name: alt.Name, Exit: aex, Sha: hex.EncodeToString(asum[:])}
		aresp := &pluginpb.CodeGeneratorResponse{}
		if gproto.Unmarshal(aso, aresp) == nil {
			ar.Files = len(aresp.GetFile())
			if ar.Files >= 1 {
				cs := sha256.Sum256([]byte(aresp.GetFile()[0].GetContent()))
				ar.ContentSha = hex.EncodeToString(cs[:])
			}
		}
		r.Alts = append(r.Alts, ar)
	}
	if v.NoGogo || r.Content == "" {
		return r, nil
	}
	// struct package
	req.Parameter = proto.String("")
	structFiles := map[string]bool{v.D.Pkg + ".pb.go": true}
	for _, dep := range v.D.Deps {
		if dep.Share { // the other files of the struct package
			req.FileToGenerate = append([]string{dep.Pkg + ".proto"}, req.FileToGenerate...)
			structFiles[dep.Pkg+".pb.go"] = true
		}
	}
	reqBytes, _ = proto.Marshal(req)
	gso, gse, gex, err := run(vdir, e.GoEnv, reqBytes, e.GogoBin)
	if err != nil || gex != 0 {
		return nil, fmt.Errorf("protoc-gen-gogo failed for %s: %v %s", v.Key, err, gse)
	}
	gresp := &plugin.CodeGeneratorResponse{}
	if err := proto.Unmarshal(gso, gresp); err != nil {
		return nil, err
	}
	if gresp.Error != nil {
		return nil, fmt.Errorf("protoc-gen-gogo error for %s: %s", v.Key, gresp.GetError())
	}
	sdir := filepath.Join(vdir, structDir(v))
	if err := os.MkdirAll(sdir, 0o755); err != nil {
		return nil, err
	}
	for _, f := range gresp.File {
		if base := filepath.Base(f.GetName()); structFiles[base] {
			if err := ioutil.WriteFile(filepath.Join(sdir, base), []byte(f.GetContent()), 0o644); err != nil {
				return nil, err
			}
		}
	}
	if err := ioutil.WriteFile(filepath.Join(sdir, "casts_gen.go"), []byte(castsFile(v.D)), 0o644); err != nil {
		return nil, err
	}
	tdir := sdir
	r.TargetImport = l.StructImport
	if v.C.Separate {
		tdir = filepath.Join(vdir, TargetPkg)
		r.TargetImport = "ws/" + v.Key + "/" + TargetPkg
		if err := os.MkdirAll(tdir, 0o755); err != nil {
			return nil, err
		}
	}
	r.TargetDir = tdir
	if err := ioutil.WriteFile(filepath.Join(tdir, v.D.Pkg+"_terraform.go"), []byte(r.Content), 0o644); err != nil {
		return nil, err
	}
	if err := ioutil.WriteFile(filepath.Join(tdir, "glue_gen.go"), []byte(glueFile(v, r, l)), 0o644); err != nil {
		return nil, err
	}
	return r, nil
}

func analyse(r *GenResult) {
	fset := token.NewFileSet()
	f, err := parser.ParseFile(fset, "gen.go", r.Content, parser.ParseComments)
	if err != nil {
		r.ParseErr = err.Error()
		return
	}
	r.Package = f.Name.Name
	for _, im := range f.Imports {
		r.Imports = append(r.Imports, strings.Trim(im.Path.Value, `"`))
	}
	for _, d := range f.Decls {
		switch x := d.(type) {
		case *ast.FuncDecl:
			var sig, txt bytes.Buffer
			printer.Fprint(&sig, fset, x.Type)
			printer.Fprint(&txt, fset, x)
			name := x.Name.Name
			method := false
			if x.Recv != nil && len(x.Recv.List) == 1 {
				var rb bytes.Buffer
				printer.Fprint(&rb, fset, x.Recv.List[0].Type)
				name = rb.String() + "." + name
				method = true
			}
			s := sha256.Sum256(txt.Bytes())
			r.Funcs = append(r.Funcs, FuncInfo{Name: name, Sig: sig.String(), NSig: normSig(fset, x.Type), Method: method, API: !method && reAPIFunc.MatchString(name),
				Text: txt.String(), Sha: hex.EncodeToString(s[:8])})
		case *ast.GenDecl:
			if x.Tok == token.TYPE {
				for _, s := range x.Specs {
					r.Types = append(r.Types, s.(*ast.TypeSpec).Name.Name)
				}
			}
		}
	}
}

var reQual = regexp.MustCompile(`([A-Za-z0-9_]+)\.([A-Z]\w*)`)

func normType(fset *token.FileSet, e ast.Expr) string {
	var b bytes.Buffer
	printer.Fprint(&b, fset, e)
	return reQual.ReplaceAllStringFunc(b.String(), func(m string) string {
		sm := reQual.FindStringSubmatch(m)
		q, id := sm[1], sm[2]
		switch {
		case q == "context":
			return "context." + id
		case strings.HasSuffix(q, "plugin_framework_tfsdk") || q == "tfsdk":
			return "tfsdk." + id
		case strings.HasSuffix(q, "plugin_framework_diag") || q == "diag":
			return "diag." + id
		case strings.HasSuffix(q, "plugin_framework_types") || q == "types":
			return "types." + id
		}
		return id // the struct package qualifier
	})
}

// normSig renders a function type with parameter names dropped and qualifiers normalised.
func normSig(fset *token.FileSet, ft *ast.FuncType) string {
	list := func(fl *ast.FieldList) []string {
		var r []string
		if fl == nil {
			return r
		}
		for _, f := range fl.List {
			n := len(f.Names)
			if n == 0 {
				n = 1
			}
			for i := 0; i < n; i++ {
				r = append(r, normType(fset, f.Type))
			}
		}
		return r
	}
	res := list(ft.Results)
	s := "func(" + strings.Join(list(ft.Params), ", ") + ")"
	switch len(res) {
	case 0:
	case 1:
		s += " " + res[0]
	default:
		s += " (" + strings.Join(res, ", ") + ")"
	}
	return s
}

// castsFile declares the named types the descriptor refers to through casttype / customtype.
// predeclared Go types a casttype may name: nothing to declare (and nothing to qualify) for them
var predeclared = map[string]bool{"int": true, "int8": true, "int16": true, "int32": true, "int64": true, "uint": true, "uint8": true,
	"uint16": true, "uint32": true, "uint64": true, "uintptr": true, "byte": true, "rune": true, "float32": true, "float64": true,
	"bool": true, "string": true}

func castsFile(d absd.Desc) string {
	var b strings.Builder
	b.WriteString("package " + d.Pkg + "\n\n")
	seen := map[string]bool{}
	under := func(f absd.Fld) string {
		switch f.Ty {
		case "double":
			return "float64"
		case "float":
			return "float32"
		case "int64", "sfixed64", "sint64":
			return "int64"
		case "uint64", "fixed64":
			return "uint64"
		case "int32", "sfixed32", "sint32":
			return "int32"
		case "uint32", "fixed32":
			return "uint32"
		case "bool":
			return "bool"
		case "string":
			return "string"
		case "bytes":
			return "[]byte"
		}
		return "string"
	}
	msgs := append([]absd.Msg{}, d.Msgs...)
	for _, dep := range d.Deps {
		if dep.Share {
			msgs = append(msgs, dep.Msgs...)
		}
	}
	for _, m := range msgs {
		for _, f := range m.Fields {
			for _, n := range []string{f.Cast, f.Custom} {
				if n == "" || strings.Contains(n, ".") || seen[n] || predeclared[n] {
					continue
				}
				seen[n] = true
				b.WriteString("type " + n + " " + under(f) + "\n\n")
			}
		}
	}
	return b.String()
}

// Suffix is the documented suffix rule (C17): configured suffix, else type name without dots and slashes.
func Suffix(c absd.Cfg, typ string) string {
	for _, kv := range c.Suffixes {
		if kv.K == typ {
			return kv.V
		}
	}
	return strings.ReplaceAll(strings.ReplaceAll(typ, "/", ""), ".", "")
}

func customTypeNames(v Variant) []string {
	set := map[string]bool{}
	for _, m := range v.D.Msgs {
		for _, f := range m.Fields {
			if f.Custom != "" {
				set[f.Custom] = true
			}
		}
	}
	for _, kv := range v.C.CustomTypes {
		set[kv.V] = true
	}
	r := []string{}
	for k := range set {
		r = append(r, k)
	}
	sort.Strings(r)
	return r
}

// glueFile: per-suffix custom hooks (what a user would write) and the registry binding the generated
// functions of every fully generated selected type to the generic driver.
func glueFile(v Variant, r *GenResult, l concretise.Layout) string {
	var b strings.Builder
	pkg := r.Package
	b.WriteString("package " + pkg + "\n\nimport (\n\t\"context\"\n\n")
	b.WriteString("\t\"github.com/hashicorp/terraform-plugin-framework/attr\"\n\t\"github.com/hashicorp/terraform-plugin-framework/diag\"\n")
	b.WriteString("\t\"github.com/hashicorp/terraform-plugin-framework/tfsdk\"\n\t\"github.com/hashicorp/terraform-plugin-framework/types\"\n")
	b.WriteString("\t\"verif/harness/drv\"\n")
	q := ""
	if v.C.Separate {
		b.WriteString("\tstructs \"" + l.StructImport + "\"\n")
		q = "structs."
	}
	b.WriteString(")\n\nvar _ = context.Background\nvar _ attr.Value\nvar _ diag.Diagnostics\nvar _ tfsdk.Attribute\nvar _ types.Object\n\n")
	sufs := map[string]bool{}
	for _, ct := range customTypeNames(v) {
		sufs[Suffix(v.C, ct)] = true
	}
	ss := []string{}
	for s := range sufs {
		ss = append(ss, s)
	}
	sort.Strings(ss)
	for _, s := range ss {
		fmt.Fprintf(&b, "func GenSchema%s(ctx context.Context, a tfsdk.Attribute) tfsdk.Attribute { return drv.HookSchema(%q, a) }\n", s, s)
		fmt.Fprintf(&b, "func CopyFrom%s[T any](diags diag.Diagnostics, v attr.Value, obj *T) { drv.HookFrom(%q, diags, v, obj) }\n", s, s)
		fmt.Fprintf(&b, "func CopyTo%s[T any](diags diag.Diagnostics, obj T, t attr.Type, v attr.Value) attr.Value { return drv.HookTo(%q, diags, obj, t, v) }\n\n", s, s)
	}
	have := map[string]bool{}
	for _, f := range r.Funcs {
		have[f.Name] = true
	}
	b.WriteString("func init() {\n")
	for _, m := range v.D.Msgs {
		t := m.Name
		if !(have["GenSchema"+t] && have["Copy"+t+"FromTerraform"] && have["Copy"+t+"ToTerraform"]) {
			continue
		}
		r.Registered = append(r.Registered, t)
		fmt.Fprintf(&b, "\tdrv.Register(%q, drv.Entry{\n", v.Key+"/"+t)
		fmt.Fprintf(&b, "\t\tNew: func() interface{} { return &%s%s{} },\n", q, t)
		fmt.Fprintf(&b, "\t\tSchema: GenSchema%s,\n", t)
		fmt.Fprintf(&b, "\t\tFrom: func(ctx context.Context, tf types.Object, o interface{}) diag.Diagnostics { return Copy%sFromTerraform(ctx, tf, o.(*%s%s)) },\n", t, q, t)
		fmt.Fprintf(&b, "\t\tTo: func(ctx context.Context, o interface{}, tf *types.Object) diag.Diagnostics { return Copy%sToTerraform(ctx, o.(*%s%s), tf) },\n", t, q, t)
		b.WriteString("\t})\n")
	}
	b.WriteString("}\n")
	return b.String()
}

// GenerateAll generates all variants in parallel.
func (e *Env) GenerateAll(vs []Variant, par int) ([]*GenResult, error) {
	res := make([]*GenResult, len(vs))
	errs := make([]error, len(vs))
	sem := make(chan struct{}, par)
	var wg sync.WaitGroup
	for i := range vs {
		wg.Add(1)
		sem <- struct{}{}
		go func(i int) {
			defer wg.Done()
			defer func() { <-sem }()
			res[i], errs[i] = e.Generate(vs[i])
		}(i)
	}
	wg.Wait()
	for _, err := range errs {
		if err != nil {
			return res, err
		}
	}
	return res, nil
}

var reAPIFunc = regexp.MustCompile(`^(GenSchema.+|Copy.+(From|To)Terraform)$`)
var rePkgHeader = regexp.MustCompile(`(?m)^# (ws/\S+)`)
var reFileLine = regexp.MustCompile(`^(\S+)/[^/\s]+\.go:\d+`)

// Build compiles every generated package; packages that fail are recorded (Compile) and left out of the
// driver, which is then linked from the remaining ones.
func (e *Env) Build(res []*GenResult) (driver string, err error) {
	var withCode []*GenResult
	for _, r := range res {
		if r != nil && r.TargetDir != "" {
			withCode = append(withCode, r)
		}
	}
	// only the packages of THIS set of runs: the work space is shared by the families of one check, and a package
	// an earlier family found broken (and reported) is not this family's business
	// (the go command reports the load errors of ONE package only and stops: build again without the packages
	// already found broken until what is left builds or fails in the ordinary way, with "# pkg" headers)
	for round := 0; round <= len(withCode); round++ {
		args := []string{"build"}
		seenPkg := map[string]bool{}
		for _, r := range withCode {
			if r.Compile != "" {
				continue
			}
			for _, p := range []string{r.TargetImport, r.StructImport} {
				if p != "" && !seenPkg[p] {
					seenPkg[p] = true
					args = append(args, p)
				}
			}
		}
		if len(args) == 1 {
			if round > 0 {
				break
			}
			args = append(args, "./...")
		}
		so, se, ex, err := run(e.WS, e.GoEnv, nil, "go", args...)
		if err != nil {
			return "", err
		}
		if ex == 0 {
			break
		}
		{
			out := string(so) + string(se)
			// attribute error blocks to packages
			idx := rePkgHeader.FindAllStringSubmatchIndex(out, -1)
			// errors found while loading packages (an import that does not exist ...) come without a "# pkg" header,
			// before the first header if there is one: attribute every such line to the package of the file it names
			head := out
			if len(idx) > 0 {
				head = out[:idx[0][0]]
			}
			attributed := false
			for _, line := range strings.Split(head, "\n") {
				m := reFileLine.FindStringSubmatch(line)
				if m == nil {
					continue
				}
				// (some load errors - an invalid import path - name the file by its absolute path)
				pkg := "ws/" + strings.TrimPrefix(m[1], e.WS+"/")
				for _, r := range withCode {
					if pkg == r.TargetImport || pkg == r.StructImport {
						r.Compile += line + "\n"
						attributed = true
					}
				}
			}
			if len(idx) == 0 && !attributed {
				return "", fmt.Errorf("go build failed without package attribution:\n%s", out)
			}
			for i, m := range idx {
				pkg := out[m[2]:m[3]]
				end := len(out)
				if i+1 < len(idx) {
					end = idx[i+1][0]
				}
				block := out[m[0]:end]
				hit := false
				for _, r := range withCode {
					if pkg == r.TargetImport || pkg == r.StructImport {
						r.Compile += block
						hit = true
					}
				}
				if !hit {
					return "", fmt.Errorf("go build failed in a non-generated package %s:\n%s", pkg, block)
				}
			}
			if len(idx) > 0 || !attributed {
				break // ordinary compile errors: every failing package was reported in this run
			}
		}
	}
	ddir := filepath.Join(e.WS, "cmd", "driver")
	if err := os.MkdirAll(ddir, 0o755); err != nil {
		return "", err
	}
	var b strings.Builder
	b.WriteString("package main\n\nimport (\n\t\"verif/harness/drv\"\n")
	seen := map[string]bool{}
	for _, r := range withCode {
		if r.Compile == "" && !seen[r.TargetImport] {
			seen[r.TargetImport] = true
			b.WriteString("\t_ \"" + r.TargetImport + "\"\n")
		}
	}
	b.WriteString(")\n\nfunc main() { drv.Main() }\n")
	if err := ioutil.WriteFile(filepath.Join(ddir, "main.go"), []byte(b.String()), 0o644); err != nil {
		return "", err
	}
	driver = filepath.Join(e.W, "bin", "driver")
	so, se, ex, err := run(e.WS, e.GoEnv, nil, "go", "build", "-o", driver, "./cmd/driver")
	if err != nil || ex != 0 {
		return "", fmt.Errorf("linking the driver failed: %v\n%s%s", err, so, se)
	}
	return driver, nil
}

// RunDriver executes behaviours (ndjson) and returns the trace file path.
func (e *Env) RunDriver(driver, vectors, trace string) error {
	so, se, ex, err := run(e.W, e.GoEnv, nil, driver, vectors, trace)
	if err != nil || ex != 0 {
		return fmt.Errorf("driver failed (exit %d): %v\n%s%s", ex, err, so, se)
	}
	return nil
}

// ToJSON is a helper for meta data.
func ToJSON(v interface{}) map[string]interface{} {
	b, err := json.Marshal(v)
	if err != nil {
		panic(err)
	}
	var m map[string]interface{}
	if err := json.Unmarshal(b, &m); err != nil {
		panic(err)
	}
	return m
}
