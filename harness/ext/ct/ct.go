// Package ct holds custom types that live in a package of their own: a descriptor names them by their full import
// path (gogoproto.customtype = "verif/harness/ext/ct.Label"), the form a custom type outside the struct package needs.
package ct

// Label is a custom type for a string field.
type Label string

// Tag is a custom type for a bool field (singular or repeated).
type Tag bool
