// Package absd defines the abstract descriptor / configuration / value
// language shared by the TLA+ specification (spec/Descriptor.tla), the
// replay vectors TLC emits, and the traces the driver writes.  Every record
// is "uniform": all keys are always present, so that TLC can compare values.
package absd

// Desc is one proto file to generate plus optional unrelated dependency files.
type Desc struct {
	Pkg  string `json:"pkg"`  // proto package == go package name of the structs
	Msgs []Msg  `json:"msgs"` // top-level messages in declaration order
	Deps []Dep  `json:"deps"` // extra, unrelated dependency files placed before F in the request
	// Dotted: the PROTO package of the file(s) is a dotted name (acme.<pkg>.v1) while the Go package stays <pkg>:
	// type names in the descriptors read .acme.<pkg>.v1.Msg
	Dotted bool `json:"dotted"`
	// Nested: messages of Msgs that are DECLARED INSIDE another message of the file: k = the message's (unique) name in
	// Msgs, v = "Parent" or "Parent:Name" when the declared simple name differs from k (two nested messages of different
	// parents may share their simple name).  A field that refers to k refers to that nested declaration.
	Nested []KV `json:"nested,omitempty"`
}

// Dep is an unrelated dependency file (C12).
type Dep struct {
	Pkg  string `json:"pkg"`
	Msgs []Msg  `json:"msgs"`
	// Share: the file belongs to the proto package and Go package of the file to generate (a second .proto file
	// of the same package which the generated file imports); its messages may be referred to by fields.
	Share bool `json:"share"`
}

// Msg is a top-level message.
type Msg struct {
	Name    string   `json:"name"`
	Fields  []Fld    `json:"fields"`
	Oneofs  []string `json:"oneofs"`  // declared oneof names, declaration order
	Comment []CLine  `json:"comment"` // leading comment, line by line (empty = none)
}

// CLine is one line of a leading comment: leading blanks, words (joined by one blank), trailing blanks
// (may contain \r).  The raw comment is the concatenation of pre + words + post + "\n" over the lines.
type CLine struct {
	Pre  string   `json:"pre"`
	W    []string `json:"w"`
	Post string   `json:"post"`
}

// Raw renders comment lines the way protoc would hand them over in SourceCodeInfo.
func Raw(c []CLine) string {
	s := ""
	for _, l := range c {
		s += l.Pre
		for i, w := range l.W {
			if i > 0 {
				s += " "
			}
			s += w
		}
		s += l.Post + "\n"
	}
	return s
}

// Fld is a field.  Ty is one of the 15 proto scalar type names, "enum",
// "msg", "timestamp", "duration" or "bogus" (unknown type, C18).
type Fld struct {
	Name     string  `json:"name"`
	Num      int     `json:"num"`
	Ty       string  `json:"ty"`
	Ref      string  `json:"ref"`      // message name for ty=msg
	Card     string  `json:"card"`     // one | rep | map
	MapKey   string  `json:"mapkey"`   // proto type of the key for card=map ("string" in D)
	Nullable bool    `json:"nullable"` // gogoproto.nullable (default true)
	Embed    bool    `json:"embed"`
	Oneof    string  `json:"oneof"` // proto name of the oneof group, "" if none
	HasJSON  bool    `json:"hasjson"`
	JSONTag  string  `json:"jsontag"`
	Cast     string  `json:"cast"`   // gogoproto.casttype
	Custom   string  `json:"custom"` // gogoproto.customtype
	Std      string  `json:"std"`    // "" | time | duration  (stdtime / stdduration)
	Comment  []CLine `json:"comment"`
}

// Inj is an injected field.
type Inj struct {
	Name     string `json:"name"`
	Type     string `json:"type"` // string | int64 | bool
	Required bool   `json:"required"`
	Computed bool   `json:"computed"`
	Optional bool   `json:"optional"`
	// validators / plan modifiers of the injected attribute itself (tags, as for fields)
	Validators []string `json:"validators"`
	PlanMods   []string `json:"planmods"`
}

// KV is an ordered key/value pair (maps are kept as lists so that the
// concretiser can permute them for C14 and TLC sees sequences).
type KV struct {
	K string `json:"k"`
	V string `json:"v"`
}

// KVs is a key with a list of values.
type KVs struct {
	K string   `json:"k"`
	V []string `json:"v"`
}

// KInj is a message path with its injected fields.
type KInj struct {
	K string `json:"k"`
	V []Inj  `json:"v"`
}

// Alt is one alternative rendering of a run.
type Alt struct {
	Name     string `json:"name"`
	Clause   string `json:"clause"` // the Contract clause this alternative serves (echoed to the trace validator)
	Channel  []KV   `json:"channel"`
	Perm     int    `json:"perm"`     // 0 = canonical order of YAML / CLI entries, else seed of a permutation
	EmptyCLI bool   `json:"emptycli"` // additionally pass every list option not delivered on the command line as an EMPTY parameter (types=, exclude_fields= ...): empty means "not given"
	Msgs     []Msg  `json:"msgs"`     // empty = the run's own messages
	// YamlStyle: another legitimate spelling of the same YAML document: "" (block lists of quoted scalars), "flow"
	// (flow sequences), "alias" (a list entry that occurs in several lists is anchored once and aliased afterwards)
	YamlStyle string `json:"yamlstyle"`
	// BoolStyle: how a boolean is spelled on the COMMAND LINE: "" (true / false) or one of the other spellings the
	// plugin understands there: "1" (1 / 0), "t" (t / f), "T" (T / F), "TRUE" (TRUE / FALSE), "True" (True / False)
	BoolStyle string `json:"boolstyle"`
	// CfgFile: what the `config` parameter names in this rendering: "" (the YAML text of the rendering), "none" (no config
	// parameter at all), "empty" (a zero-byte file), "comments" (a file whose entries are all commented out).  The last three
	// need a configuration that is delivered on the command line entirely.
	CfgFile string `json:"cfgfile"`
	// CliGap: an EMPTY entry in every `+`-separated list of the command line: 0 none, 1 in front, 2 after the first entry, 3 at the end
	CliGap int `json:"cligap"`
}

// Cfg is the abstract configuration.
type Cfg struct {
	Types          []string `json:"types"`
	Sort           bool     `json:"sort"`
	Separate       bool     `json:"separate"` // separate target package
	ImportOverride bool     `json:"importoverride"`
	// LegacyOverride: default_package_name is a full import path of another place, redirected to the struct package by an import_path_overrides entry keyed by that full path
	LegacyOverride bool `json:"legacyoverride"`
	DottedImport   bool     `json:"dottedimport"` // the struct package lives at an import path whose last element has a dot (types.v1)
	// CapsImport: the import path of the struct package contains capital letters (github.com/Acme/...): its last element is
	// spelled RootLeafMidOuterInnerTypes
	CapsImport bool `json:"capsimport"`
	// SameName: the separate target package is NAMED like the struct package (last element of its import path)
	SameName bool `json:"samename"`
	// ExtraOverride: import_path_overrides carries a second, unrelated entry whose key is a prefix of the struct package's path
	ExtraOverride bool     `json:"extraoverride"`
	Exclude       []string `json:"exclude"`
	Required      []string `json:"required"`
	Computed      []string `json:"computed"`
	Sensitive     []string `json:"sensitive"`
	NameOverrides []KV     `json:"nameoverrides"`
	// SchemaTypes: schema_types overrides, field key -> "string" | "int64" (the harness's OvrStringType / OvrIntType)
	SchemaTypes    []KV   `json:"schematypes"`
	Validators     []KVs  `json:"validators"`
	PlanModifiers  []KVs  `json:"planmodifiers"`
	USFU           bool   `json:"usfu"`
	Injected       []KInj `json:"injected"`
	TimeType       bool   `json:"timetype"`
	DurationType   bool   `json:"durationtype"`
	DurationCustom string `json:"durationcustom"`
	CustomTypes    []KV   `json:"customtypes"`
	Suffixes       []KV   `json:"suffixes"`
	// Channel says, per two-channel option name, how it is delivered:
	// "" or "yaml" (YAML only), "cli", "both" (CLI value + contradicting YAML value).
	Channel []KV `json:"channel"`
	// Alts are alternative renderings of the SAME run (same request paths): other channel assignments (C16),
	// permuted entry orders or plain repetitions (C14), permuted declaration orders (C15, Msgs non-empty).
	Alts []Alt `json:"alts"`
	// YamlStyle / BoolStyle of this rendering (set from the alternative being rendered)
	YamlStyle string `json:"yamlstyle"`
	BoolStyle string `json:"boolstyle"`
	CliGap    int    `json:"cligap"`
	// Raw overrides for C16 failure cases: "" | noconfig | missingfile | malformed | notypes
	Fault string `json:"fault"`
}
