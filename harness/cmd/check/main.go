// check: entry point of the verification framework (see /verif/DESIGN.md).
//
//	check setup
//	check <property> --tier quick|thorough [--replay <bundle>]
//
// Exit 0: the property held on everything explored (KNOWN-FINDING / DRIFT lines allowed).
// Exit 1: at least one violation not listed in known_findings.json (one VIOLATION line each).
// Exit 2: infrastructure failure (never a verdict).
package main

import (
	"crypto/sha256"
	"encoding/hex"
	"encoding/json"
	"fmt"
	"io/ioutil"
	"os"
	"path/filepath"
	"regexp"
	"sort"
	"strconv"
	"strings"
	"time"

	"verif/harness/pipeline"
)

type propSpec struct {
	ID       string
	Families []string // session families
	Rule     string
	Assume   []string
}

var props = map[string]propSpec{
	"C01": {"C01", []string{"genmap", "genselect", "gensep", "rnd-gen"}, "", nil},
	"C02": {"C02", []string{"genmap", "rnd-gen", "empty", "rnd-empty"}, "", nil},
	"C03": {"C03", []string{"empty", "boundary", "rnd-empty"}, "", nil},
	"C04": {"C04", []string{"empty", "boundary", "rnd-empty"}, "", nil},
	"C05": {"C05", []string{"reset", "rnd-reset"}, "", nil},
	"C06": {"C06", []string{"badfrom", "badto", "planto", "rnd-badfrom", "rnd-badto"}, "", nil},
	"C07": {"C07", []string{"empty", "reset", "rnd-empty", "rnd-reset"}, "", nil},
	"C08": {"C08", []string{"echo", "rnd-echo"}, "", nil},
	"C09": {"C09", []string{"refresh", "lifecycle", "rnd-refresh"}, "", nil},
	"C10": {"C10", []string{"genflags", "rnd-gen"}, "", nil},
	"C11": {"C11", []string{"genaddr", "genexcl"}, "", nil},
	"C12": {"C12", []string{"genselect"}, "", nil},
	"C13": {"C13", []string{"gensep"}, "", nil},
	"C14": {"C14", []string{"gendet"}, "", nil},
	"C15": {"C15", []string{"gensort"}, "", nil},
	"C16": {"C16", []string{"genconfig"}, "", nil},
	"C17": {"C17", []string{"custom", "customplan", "custombad", "custombadto"}, "", nil},
	"C18": {"C18", []string{"genwhole"}, "", nil},
	"C19": {"C19", []string{"boundary"}, "", nil},
	"C20": {"C20", []string{"empty", "boundary", "rnd-empty"}, "", nil},
}

// properties about the generator run: their checks also model-check the run machine
var runLevel = map[string]bool{"C01": true, "C12": true, "C14": true, "C16": true, "C18": true}

var designStates, designGen int64

// designCheck model-checks a behaviour-free-standing module of the specification (cached by spec hash).
func designCheck(w, module string) (int64, int64, error) {
	type cached struct {
		States, Generated int64
	}
	cp := cachePath("design", module, "any", 0, false)
	if b, err := ioutil.ReadFile(cp); err == nil {
		var c cached
		if json.Unmarshal(b, &c) == nil && c.States > 0 {
			return c.States, c.Generated, nil
		}
	}
	dir := filepath.Join(w, "design-"+module)
	if err := copySpec(dir); err != nil {
		return 0, 0, err
	}
	res, err := runTLC(dir, module+".tla", module+".cfg", 8, 8000, 20*time.Minute, nil)
	if err != nil {
		return 0, 0, err
	}
	os.MkdirAll(cacheDir, 0o755)
	ioutil.WriteFile(cp, mustJSON(cached{res.Distinct, res.Generated}), 0o644)
	os.RemoveAll(dir)
	return res.Distinct, res.Generated, nil
}

type knownFinding struct {
	ID       string `json:"id"`
	Property string `json:"property"`
	Clause   string `json:"clause"`
	Sig      string `json:"sig"` // regular expression over the shape signature + trigger
	What     string `json:"what"`
}

type knownFile struct {
	Findings []knownFinding           `json:"findings"`
	Fixed    []map[string]interface{} `json:"fixed"`
}

func loadKnown() (knownFile, error) {
	var k knownFile
	b, err := ioutil.ReadFile(filepath.Join(verifRoot, "known_findings.json"))
	if err != nil {
		if os.IsNotExist(err) {
			return k, nil
		}
		return k, err
	}
	err = json.Unmarshal(b, &k)
	return k, err
}

func fail2(format string, a ...interface{}) {
	fmt.Fprintf(os.Stderr, "check: "+format+"\n", a...)
	os.Exit(2)
}

func main() {
	initRoot()
	pipeline.HarnessDir = filepath.Join(verifRoot, "harness")
	if r := os.Getenv("VERIF_REPO"); r != "" {
		pipeline.RepoDir = r
	}
	if len(os.Args) < 2 {
		fail2("usage: check setup | check <property> --tier quick|thorough [--replay <bundle>]")
	}
	if os.Args[1] == "setup" {
		os.Exit(setup())
	}
	if os.Args[1] == "family" {
		os.Exit(familyDebug(os.Args[2:]))
	}
	id := os.Args[1]
	tier := os.Getenv("VERIF_TIER")
	replay := ""
	for i := 2; i < len(os.Args); i++ {
		switch os.Args[i] {
		case "--tier":
			i++
			tier = os.Args[i]
		case "--replay":
			i++
			replay = os.Args[i]
		}
	}
	if tier == "" {
		tier = "quick"
	}
	if tier != "quick" && tier != "thorough" {
		fail2("bad tier %q", tier)
	}
	seed := int64(1)
	if s := os.Getenv("VERIF_SEED"); s != "" {
		v, err := strconv.ParseInt(s, 10, 64)
		if err != nil {
			fail2("bad VERIF_SEED %q", s)
		}
		seed = v
	}
	p, ok := props[id]
	if !ok {
		fail2("unknown or unclaimed property %q", id)
	}
	os.Exit(checkProperty(p, tier, seed, replay))
}

func newEnv() (*pipeline.Env, func()) {
	w := filepath.Join(verifRoot, ".work", strconv.Itoa(os.Getpid()))
	os.RemoveAll(w)
	if err := os.MkdirAll(w, 0o755); err != nil {
		fail2("%v", err)
	}
	env, err := pipeline.NewEnv(w)
	if err != nil {
		os.RemoveAll(w)
		fail2("%v", err)
	}
	return env, func() {
		if os.Getenv("VERIF_KEEP") == "" {
			os.RemoveAll(w)
		}
	}
}

func checkProperty(p propSpec, tier string, seed int64, replay string) int {
	start := time.Now()
	known, err := loadKnown()
	if err != nil {
		fail2("known_findings.json: %v", err)
	}
	env, cleanup := newEnv()
	defer cleanup()
	only, onlyFam := "", ""
	if replay != "" {
		b, err := ioutil.ReadFile(replay)
		if err != nil {
			fail2("%v", err)
		}
		var bun struct {
			Family    string `json:"family"`
			Tier      string `json:"tier"`
			Behaviour string `json:"behaviour"`
		}
		if err := json.Unmarshal(b, &bun); err != nil {
			fail2("bad bundle: %v", err)
		}
		only, onlyFam, tier = bun.Behaviour, bun.Family, bun.Tier
	}
	var reps []*FamilyReport
	infra := ""
	for _, fn := range p.Families {
		if onlyFam != "" && fn != onlyFam {
			continue
		}
		fam := sessFamilies[fn]
		r, err := runSessionFamily(env, fam, tier, seed, only)
		if err != nil {
			infra = fmt.Sprintf("family %s: %v", fn, err)
			break
		}
		if len(r.HarnessErr) > 0 {
			infra = fmt.Sprintf("family %s: harness errors: %v", fn, r.HarnessErr[0])
			break
		}
		reps = append(reps, r)
	}
	if infra != "" {
		// A family that could not be run decides nothing (exit 2) - unless the families that did run have already
		// observed the real code violating the property: those observations stand on their own.
		if !hasNewViolation(p, reps, known) {
			cleanup()
			fail2("%s", infra)
		}
		fmt.Printf("NOTE: %s\nNOTE: that family decided nothing; the violations below were observed in the real code by the families that ran before it\n", firstLine(infra))
		return verdict(p, tier, seed, reps, known, time.Since(start).Seconds(), true)
	}
	// design level: the generator run machine (GenRun.tla) with its invariants C01 C12 C14 C16 C18, every
	// interleaving of the map-order dump explored; a failure here is a fault of the specification (exit 2)
	if runLevel[p.ID] && replay == "" {
		st, gen, err := designCheck(env.W, "MC_GenRun")
		if err != nil {
			cleanup()
			fail2("design-level model MC_GenRun: %v", err)
		}
		designStates, designGen = st, gen
	}
	return verdict(p, tier, seed, reps, known, time.Since(start).Seconds(), replay != "")
}

// hasNewViolation: do the reports carry a violation of p that known_findings.json does not list?
func hasNewViolation(p propSpec, reps []*FamilyReport, known knownFile) bool {
	for _, r := range reps {
		if len(r.CompileFail) > 0 || len(r.GenFail) > 0 {
			return true
		}
	next:
		for _, v := range r.Violations {
			if !strings.HasPrefix(v.Clause, p.ID+".") {
				continue
			}
			for _, kf := range known.Findings {
				if kf.Property == p.ID && kf.Clause == v.Clause {
					if re, err := regexp.Compile(kf.Sig); err == nil && re.MatchString(v.Sig) {
						continue next
					}
				}
			}
			return true
		}
	}
	return false
}

func firstLine(s string) string {
	if i := strings.IndexByte(s, '\n'); i >= 0 {
		s = s[:i]
	}
	if len(s) > 300 {
		s = s[:300] + "..."
	}
	return s
}

// verdict filters the family reports down to the property, matches known findings, prints the
// result lines and writes the evidence file.
func verdict(p propSpec, tier string, seed int64, reps []*FamilyReport, known knownFile, wall float64, isReplay bool) int {
	prefix := p.ID + "."
	type group struct {
		first ViolInst
		n     int
		bun   json.RawMessage
	}
	groups := map[string]*group{}
	var order []string
	evals, distinct, lines, behs := 0, 0, 0, 0
	var states, gen int64
	drift := 0
	altRuns := 0
	randomBehs := 0
	var samples []json.RawMessage
	modelViol := map[string]int{}
	unexplored := []string{}
	cached := false
	for _, r := range reps {
		cached = cached || r.Cached
		evals += r.Evald[p.ID]
		distinct += r.Distinct[p.ID]
		lines += r.TraceLines
		behs += r.Behaviours
		states += r.MCStates
		gen += r.MCGenerated
		drift += len(r.Drift)
		altRuns += r.AltRuns
		randomBehs += r.RandomBehaviours
		samples = append(samples, r.Samples...)
		for k, n := range r.ModelViol {
			if strings.HasPrefix(k, prefix) {
				modelViol[k] += n
			}
		}
		// converters that do not exist cannot satisfy any property about them: a generated package that does
		// not compile, or a run without output, is reported under the property being checked
		for k, out := range r.CompileFail {
			unexplored = append(unexplored, r.Family+":"+k+" (generated code does not compile)")
			v := ViolInst{Clause: p.ID + ".generated_code_compiles", Path: k, Sig: "compile " + firstError(out), Shape: k, Behaviour: k, Ev: "build"}
			key := v.Clause + "|" + v.Sig
			if _, ok := groups[key]; !ok {
				groups[key] = &group{first: v, bun: mustJSON(map[string]interface{}{"family": r.Family, "tier": tier, "variant": k, "compiler_output": out})}
				order = append(order, key)
			}
			groups[key].n++
		}
		for k, out := range r.GenFail {
			unexplored = append(unexplored, r.Family+":"+k+" (no output)")
			v := ViolInst{Clause: p.ID + ".generated_code_compiles", Path: k, Sig: "no output", Shape: k, Behaviour: k, Ev: "run"}
			key := v.Clause + "|" + v.Sig
			if _, ok := groups[key]; !ok {
				groups[key] = &group{first: v, bun: mustJSON(map[string]interface{}{"family": r.Family, "tier": tier, "variant": k, "plugin_output": out})}
				order = append(order, key)
			}
			groups[key].n++
		}
		for _, v := range r.Violations {
			if !strings.HasPrefix(v.Clause, prefix) {
				continue
			}
			k := v.Clause + "|" + v.Sig
			g, ok := groups[k]
			if !ok {
				g = &group{first: v, bun: r.Bundles[k]}
				groups[k] = g
				order = append(order, k)
			}
			g.n++
		}
	}
	sort.Strings(order)
	sort.Strings(unexplored)
	exit := 0
	printedKnown := map[string]bool{}
	nviol := 0
	knownHits := []string{}
	for _, k := range order {
		g := groups[k]
		matched := false
		for _, kf := range known.Findings {
			if kf.Property != p.ID || kf.Clause != g.first.Clause {
				continue
			}
			re, err := regexp.Compile(kf.Sig)
			if err != nil {
				fail2("known_findings.json: bad sig regexp %q", kf.Sig)
			}
			if re.MatchString(g.first.Sig) {
				matched = true
				if !printedKnown[kf.ID] {
					printedKnown[kf.ID] = true
					fmt.Printf("KNOWN-FINDING: property=%s %s [%s; clause %s]\n", p.ID, kf.What, kf.ID, kf.Clause)
					knownHits = append(knownHits, kf.ID)
				}
				break
			}
		}
		if matched {
			continue
		}
		nviol++
		exit = 1
		h := sha256.Sum256([]byte(k))
		dir := filepath.Join(verifRoot, "replays", p.ID)
		os.MkdirAll(dir, 0o755)
		path := filepath.Join(dir, hex.EncodeToString(h[:6])+".json")
		ioutil.WriteFile(path, g.bun, 0o644)
		fmt.Printf("VIOLATION property=%s replay=%s\n", p.ID, path)
		fmt.Printf("  clause=%s field=%s shape=%s sig=%q instances=%d first=%s (%s, trace line %d)\n",
			g.first.Clause, g.first.Path, g.first.Shape, g.first.Sig, g.n, g.first.Behaviour, g.first.Ev, g.first.Line)
	}
	if drift > 0 {
		fmt.Printf("DRIFT: %d recorded real post-states differ from the Impl model (no clause failed there; the exhaustive TLC result speaks about the model only until it is re-calibrated)\n", drift)
		for _, r := range reps {
			for i, d := range r.Drift {
				if i >= 5 {
					break
				}
				fmt.Printf("  drift %s %s %s: %s\n", r.Family, d.Behaviour, d.Ev, d.What)
			}
		}
	}
	for _, u := range unexplored {
		fmt.Printf("NOTE: not explored: %s\n", u)
	}
	if isReplay {
		for _, k := range order {
			fmt.Printf("replayed: %s x%d\n", k, groups[k].n)
		}
	}
	fmt.Printf("%s %s: %d behaviours replayed in the real code, %d trace lines accepted, %d clause evaluations, %d violations, %d known findings, drift %d (%.1fs)\n",
		p.ID, tier, behs, lines, evals, nviol, len(knownHits), drift, wall)
	if !isReplay {
		writeEvidence(p, tier, seed, evidence{
			states: states, transitions: gen, traces: behs, evals: evals, distinct: distinct, samples: samples, wall: wall,
			violations: nviol, extra: map[string]interface{}{
				"trace_lines_accepted": lines, "drift": drift, "known_findings_hit": knownHits,
				"model_level_contract_failures": modelViol, "unexplored": unexplored, "families": p.Families, "from_cache": cached, "alternative_renderings_run": altRuns, "genrun_model_states": designStates, "genrun_model_transitions": designGen, "seeded_random_behaviours": randomBehs,
				"float32_sweep": sweepOf(reps),
			}})
	}
	return exit
}

// sweepOf: the native float32 sweep of family boundary, if one of the reports carries it
func sweepOf(reps []*FamilyReport) interface{} {
	for _, r := range reps {
		if r.Sweep != nil {
			return r.Sweep
		}
	}
	return nil
}

type evidence struct {
	states, transitions     int64
	traces, evals, distinct int
	samples                 []json.RawMessage
	wall                    float64
	violations              int
	extra                   map[string]interface{}
}

var reErrLine = regexp.MustCompile(`(?m)^\S+\.go:\d+:\d+: (.*)$`)

// firstError: the first compiler message without file position (stable across shapes)
func firstError(out string) string {
	if m := reErrLine.FindStringSubmatch(out); m != nil {
		return m[1]
	}
	return "error"
}

func writeEvidence(p propSpec, tier string, seed int64, e evidence) {
	if pipeline.RepoDir != "/repo" || os.Getenv("VERIF_NO_EVIDENCE") != "" {
		return // a development run against another tree says nothing about /repo
	}
	cov := map[string]interface{}{
		"states": e.states, "transitions": e.transitions, "traces_validated_against_impl": e.traces,
		"evaluations": e.evals, "distinct_nontrivial": e.distinct,
		"rule":    "TLC enumerates every (shape, value, history) of the family's script within the stated bounds; each behaviour is replayed in the real generated code and every recorded state is judged by Trace.tla. evaluations = trace lines on which the property's antecedent held; distinct_nontrivial = distinct behaviours (shape + argument values) among them.",
		"samples": e.samples, "exhaustive": true,
	}
	for k, v := range e.extra {
		cov[k] = v
	}
	if len(e.samples) == 0 {
		cov["samples"] = []interface{}{"none"}
	}
	ev := map[string]interface{}{
		"property_id": p.ID, "tier": tier, "seed": seed, "level": "model_checking", "coverage": cov,
		"assumptions": []string{
			"TLC 1.8 and the CommunityModules Json reader are correct",
			"the concretiser (abstract descriptor -> FileDescriptorProto) and the projections (struct -> GV, types.Object -> TV) of /verif/harness are faithful",
			"gogo/protobuf v1.3.2 struct layout and terraform-plugin-framework v0.10.0 decoding are the environment the generated code runs in",
			"bounds of the model configuration (shape families of spec/Shapes.tla, value sets of spec/Gen.tla)",
		},
		"wall_s": e.wall, "violations": e.violations,
	}
	os.MkdirAll(filepath.Join(verifRoot, "evidence"), 0o755)
	b, _ := json.MarshalIndent(ev, "", " ")
	ioutil.WriteFile(filepath.Join(verifRoot, "evidence", p.ID+".json"), b, 0o644)
}

func setup() int {
	// sany on every module
	dir := filepath.Join(verifRoot, ".work", "setup-"+strconv.Itoa(os.Getpid()))
	defer os.RemoveAll(dir)
	if err := copySpec(dir); err != nil {
		fail2("%v", err)
	}
	ents, _ := ioutil.ReadDir(dir)
	for _, e := range ents {
		if !strings.HasSuffix(e.Name(), ".tla") {
			continue
		}
		out, err := runCmd(dir, "java", "-Djava.io.tmpdir="+dir, "-cp", tlaJar, "tla2sany.SANY", e.Name())
		if err != nil || strings.Contains(out, "*** Errors") || strings.Contains(out, "Fatal errors") {
			fmt.Printf("setup: SANY rejects %s:\n%s\n", e.Name(), out)
			return 2
		}
	}
	if err := bindingSelfTest(dir); err != nil {
		fmt.Println("setup: binding self-test failed:", err)
		return 2
	}
	fmt.Println("setup: specification parses; harness built; binding self-test passed (recorded trace accepted, 4 corruptions and 1 removed line noticed)")
	return 0
}

// familyDebug: `check family <name> [quick|thorough] [seed]` runs one family and prints every violation group of
// every property plus the drift (development aid; no verdict, no evidence).
func familyDebug(args []string) int {
	if len(args) < 1 {
		fail2("usage: check family <name> [tier] [seed]")
	}
	fam, ok := sessFamilies[args[0]]
	if !ok {
		fail2("unknown family %q", args[0])
	}
	tier, seed := "quick", int64(1)
	if len(args) > 1 {
		tier = args[1]
	}
	if len(args) > 2 {
		seed, _ = strconv.ParseInt(args[2], 10, 64)
	}
	env, cleanup := newEnv()
	defer cleanup()
	r, err := runSessionFamily(env, fam, tier, seed, "")
	if err != nil {
		cleanup()
		fail2("%v", err)
	}
	groups := map[string]int{}
	first := map[string]ViolInst{}
	for _, v := range r.Violations {
		k := v.Clause + " | " + v.Sig
		groups[k]++
		if _, ok := first[k]; !ok {
			first[k] = v
		}
	}
	keys := []string{}
	for k := range groups {
		keys = append(keys, k)
	}
	sort.Strings(keys)
	for _, k := range keys {
		fmt.Printf("%5d  %s   (first: %s %s field %s)\n", groups[k], k, first[k].Behaviour, first[k].Ev, first[k].Path)
	}
	for i, d := range r.Drift {
		if i < 12 {
			fmt.Printf("drift  %s %s: %s\n", d.Behaviour, d.Ev, d.What)
		}
	}
	for k, v := range r.CompileFail {
		fmt.Printf("compile failure %s: %.300s\n", k, v)
	}
	for k, v := range r.GenFail {
		fmt.Printf("gen failure %s: %.300s\n", k, v)
	}
	for _, h := range r.HarnessErr {
		fmt.Printf("harness error: %s\n", h)
	}
	fmt.Printf("family %s %s seed %d: %d shapes, %d behaviours, %d lines, %d violation instances in %d groups, drift %d, mc states %d (%.1fs), evald %v\n",
		fam.Name, tier, seed, r.Shapes, r.Behaviours, r.TraceLines, len(r.Violations), len(groups), len(r.Drift), r.MCStates, r.WallS, r.Evald)
	return 0
}
