package main

import (
	"bufio"
	"bytes"
	"crypto/sha256"
	"encoding/hex"
	"encoding/json"
	"fmt"
	"io"
	"io/ioutil"
	"os"
	"os/exec"
	"path/filepath"
	"regexp"
	"sort"
	"strconv"
	"strings"
	"time"
)

const tlaJar = "/opt/veriftools/tla/tla2tools.jar:/opt/veriftools/tla/CommunityModules-deps.jar"

// verifRoot is the directory holding spec/, harness/, known_findings.json, evidence/ ...: the working
// directory of the check (a snapshot of /verif works as well as /verif itself).
var (
	verifRoot = "/verif"
	specDir   = "/verif/spec"
	cacheDir  = "/verif/.cache"
)

func initRoot() {
	if r := os.Getenv("VERIF_ROOT"); r != "" {
		verifRoot = r
	} else if wd, err := os.Getwd(); err == nil {
		if _, err := os.Stat(filepath.Join(wd, "spec", "Trace.tla")); err == nil {
			verifRoot = wd
		}
	}
	specDir = filepath.Join(verifRoot, "spec")
	cacheDir = filepath.Join(verifRoot, ".cache")
}

// TLCResult is what one TLC run printed.
type TLCResult struct {
	Lines     []string // unquoted PrintT payloads
	Generated int64
	Distinct  int64
	Depth     int
	OK        bool // "Model checking completed. No error has been found."
	Raw       string
	WallS     float64
}

var (
	reStates = regexp.MustCompile(`(\d+) states generated, (\d+) distinct states found`)
	reDepth  = regexp.MustCompile(`The depth of the complete state graph search is (\d+)`)
)

// copySpec copies the specification into a scratch directory (TLC litters next to the modules).
func copySpec(dst string) error {
	if err := os.MkdirAll(dst, 0o755); err != nil {
		return err
	}
	ents, err := ioutil.ReadDir(specDir)
	if err != nil {
		return err
	}
	for _, e := range ents {
		if e.IsDir() || !(strings.HasSuffix(e.Name(), ".tla") || strings.HasSuffix(e.Name(), ".cfg")) {
			continue
		}
		b, err := ioutil.ReadFile(filepath.Join(specDir, e.Name()))
		if err != nil {
			return err
		}
		if err := ioutil.WriteFile(filepath.Join(dst, e.Name()), b, 0o644); err != nil {
			return err
		}
	}
	return nil
}

func specHash() string {
	h := sha256.New()
	ents, _ := ioutil.ReadDir(specDir)
	for _, e := range ents {
		if e.IsDir() {
			continue
		}
		b, _ := ioutil.ReadFile(filepath.Join(specDir, e.Name()))
		io.WriteString(h, e.Name())
		h.Write(b)
	}
	return hex.EncodeToString(h.Sum(nil))[:16]
}

// runTLC runs module with cfg in dir (a scratch copy of the spec).
func runTLC(dir, module, cfg string, workers int, heapMB int, timeout time.Duration, env []string, extra ...string) (*TLCResult, error) {
	meta, err := ioutil.TempDir(dir, "md-")
	if err != nil {
		return nil, err
	}
	defer os.RemoveAll(meta)
	// TLC unpacks its standard modules into java.io.tmpdir: keep that inside the scratch directory
	args := []string{"-XX:+UseParallelGC", fmt.Sprintf("-Xmx%dm", heapMB), "-Xss512m", "-Djava.io.tmpdir=" + meta, "-cp", tlaJar, "tlc2.TLC",
		"-workers", strconv.Itoa(workers), "-metadir", meta, "-config", cfg}
	args = append(args, extra...)
	args = append(args, module)
	cmd := exec.Command("java", args...)
	cmd.Dir = dir
	cmd.Env = append(os.Environ(), env...)
	var out bytes.Buffer
	cmd.Stdout = &out
	cmd.Stderr = &out
	start := time.Now()
	if err := cmd.Start(); err != nil {
		return nil, err
	}
	done := make(chan error, 1)
	go func() { done <- cmd.Wait() }()
	var werr error
	select {
	case werr = <-done:
	case <-time.After(timeout):
		cmd.Process.Kill()
		<-done
		return nil, fmt.Errorf("TLC %s timed out after %s", module, timeout)
	}
	r := &TLCResult{Raw: out.String(), WallS: time.Since(start).Seconds()}
	sc := bufio.NewScanner(bytes.NewReader(out.Bytes()))
	sc.Buffer(make([]byte, 1<<20), 1<<28)
	for sc.Scan() {
		t := sc.Text()
		if strings.HasPrefix(t, `"`) {
			u, err := strconv.Unquote(t)
			if err != nil {
				return r, fmt.Errorf("cannot unquote TLC output line: %v: %.200s", err, t)
			}
			r.Lines = append(r.Lines, u)
		}
	}
	if m := reStates.FindAllStringSubmatch(r.Raw, -1); len(m) > 0 {
		last := m[len(m)-1]
		r.Generated, _ = strconv.ParseInt(last[1], 10, 64)
		r.Distinct, _ = strconv.ParseInt(last[2], 10, 64)
	}
	if m := reDepth.FindStringSubmatch(r.Raw); m != nil {
		r.Depth, _ = strconv.Atoi(m[1])
	}
	r.OK = strings.Contains(r.Raw, "Model checking completed. No error has been found.")
	if !r.OK {
		tail := r.Raw
		if len(tail) > 6000 {
			tail = tail[len(tail)-6000:]
		}
		return r, fmt.Errorf("TLC %s did not complete cleanly (%v):\n%s", module, werr, tail)
	}
	return r, nil
}

// normTLC repairs the one ambiguity of TLC's JSON: an empty function prints as [] — keys that hold
// objects get {} back.
var objKeys = map[string]bool{"f": true, "m": true, "attrs": true, "at": true, "mels": true}

func normTLC(v interface{}) interface{} {
	switch x := v.(type) {
	case map[string]interface{}:
		for k, e := range x {
			if arr, ok := e.([]interface{}); ok && len(arr) == 0 && objKeys[k] {
				x[k] = map[string]interface{}{}
			} else {
				x[k] = normTLC(e)
			}
		}
		return x
	case []interface{}:
		for i := range x {
			x[i] = normTLC(x[i])
		}
		return x
	}
	return v
}

func mustJSON(v interface{}) []byte {
	b, err := json.Marshal(v)
	if err != nil {
		panic(err)
	}
	return b
}

func sortedKeys(m map[string]bool) []string {
	r := []string{}
	for k := range m {
		r = append(r, k)
	}
	sort.Strings(r)
	return r
}
