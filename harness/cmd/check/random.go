package main

import (
	"encoding/hex"
	"encoding/json"
	"fmt"
	"math"
	"math/rand"
	"strconv"
	"time"

	"verif/harness/absd"
)

// goBaseType mirrors spec/Generator.tla GoBaseType.
func goBaseType(c absd.Cfg, f absd.Fld) string {
	switch {
	case f.Std == "time" || f.Ty == "timestamp" || f.Cast == "time.Time":
		return "time"
	case f.Std == "duration" || f.Ty == "duration" || f.Cast == "time.Duration" || (c.DurationCustom != "" && f.Cast == c.DurationCustom):
		return "duration"
	}
	switch f.Ty {
	case "double":
		return "float64"
	case "float":
		return "float32"
	case "int64", "sfixed64", "sint64":
		return "int64"
	case "uint64", "fixed64":
		return "uint64"
	case "int32", "sfixed32", "sint32":
		return "int32"
	case "uint32", "fixed32":
		return "uint32"
	case "enum":
		return "enum"
	}
	return f.Ty
}

func canonF(f float64) string {
	if f == 0 {
		if math.Signbit(f) {
			return "-0"
		}
		return "0"
	}
	return strconv.FormatFloat(f, 'x', -1, 64)
}

// randScalar draws a canonical scalar string of the given Go type: uniform over the bit patterns, with a
// share of values next to the limits.
func randScalar(rng *rand.Rand, goty string) string {
	near := rng.Intn(5) == 0
	switch goty {
	case "int32", "enum":
		if near {
			return strconv.FormatInt(int64([]int32{math.MinInt32, math.MinInt32 + 1, math.MaxInt32, math.MaxInt32 - 1, -1, 0, 1}[rng.Intn(7)]), 10)
		}
		return strconv.FormatInt(int64(int32(rng.Uint32())), 10)
	case "uint32":
		return strconv.FormatUint(uint64(rng.Uint32()), 10)
	case "int64":
		return strconv.FormatInt(int64(rng.Uint64()), 10)
	case "duration":
		return strconv.FormatInt(int64(rng.Uint64()), 10)
	case "uint64":
		if near {
			return strconv.FormatUint(math.MaxUint64-uint64(rng.Intn(1000)), 10)
		}
		return strconv.FormatUint(rng.Uint64(), 10)
	case "float32":
		for {
			f := math.Float32frombits(rng.Uint32())
			if !math.IsNaN(float64(f)) && !math.IsInf(float64(f), 0) {
				return canonF(float64(f))
			}
		}
	case "float64":
		for {
			f := math.Float64frombits(rng.Uint64())
			if !math.IsNaN(f) && !math.IsInf(f, 0) {
				return canonF(f)
			}
		}
	case "bool":
		return strconv.FormatBool(rng.Intn(2) == 0)
	case "string", "bytes":
		b := make([]byte, rng.Intn(13))
		rng.Read(b)
		return hex.EncodeToString(b)
	case "time":
		secs := rng.Int63n(253402300799+62135596800) - 62135596800
		off := (rng.Intn(105) - 48) * 900 // -12h .. +14h in quarter hours
		t := time.Unix(secs, rng.Int63n(1e9)).In(time.FixedZone("", off))
		if t.Year() < 1 || t.Year() > 9999 {
			t = time.Unix(secs, rng.Int63n(1e9)).UTC()
		}
		return t.Format(time.RFC3339Nano)
	}
	panic("randScalar: " + goty)
}

func gvScalar(s string) map[string]interface{} { return map[string]interface{}{"t": "s", "s": s} }

// randomBoundary builds count random struct values for a boundary shape (scalar fields only).
func randomBoundary(s shapeRec, rng *rand.Rand, count int) ([]vector, error) {
	var d absd.Desc
	var c absd.Cfg
	if err := json.Unmarshal(s.D, &d); err != nil {
		return nil, err
	}
	if err := json.Unmarshal(s.Cfg, &c); err != nil {
		return nil, err
	}
	var root *absd.Msg
	for i := range d.Msgs {
		if d.Msgs[i].Name == s.Root {
			root = &d.Msgs[i]
		}
	}
	if root == nil {
		return nil, fmt.Errorf("no root %s", s.Root)
	}
	msgByName := map[string]*absd.Msg{}
	for i := range d.Msgs {
		msgByName[d.Msgs[i].Name] = &d.Msgs[i]
	}
	// one random value per scalar position; embedded messages (nullable: behind a pointer) are filled the same way
	var fill func(m *absd.Msg) map[string]interface{}
	fill = func(m *absd.Msg) map[string]interface{} {
		f := map[string]interface{}{}
		for _, fl := range m.Fields {
			if fl.Ty == "msg" && fl.Embed {
				st := map[string]interface{}{"t": "st", "f": fill(msgByName[fl.Ref])}
				if fl.Nullable {
					st = map[string]interface{}{"t": "ptr", "p": st}
				}
				f[fl.Ref] = st
				continue
			}
			gt := goBaseType(c, fl)
			ptr := (fl.Ty == "timestamp" || fl.Ty == "duration") && fl.Nullable
			one := func() map[string]interface{} {
				v := gvScalar(randScalar(rng, gt))
				if ptr {
					return map[string]interface{}{"t": "ptr", "p": v}
				}
				return v
			}
			name := fl.Name // pool names of the boundary shapes are their own Go names
			switch {
			case fl.Oneof != "":
				f[fl.Oneof] = map[string]interface{}{"t": "one", "b": name, "w": one()}
			case fl.Card == "rep":
				e := []interface{}{}
				for i := rng.Intn(9); i > 0; i-- {
					e = append(e, one())
				}
				f[name] = map[string]interface{}{"t": "seq", "e": e}
			case fl.Card == "map":
				m := map[string]interface{}{}
				for i := rng.Intn(5); i > 0; i-- {
					m[fmt.Sprintf("k%d", i)] = one()
				}
				f[name] = map[string]interface{}{"t": "map", "m": m}
			default:
				f[name] = one()
			}
		}
		return f
	}
	var out []vector
	for n := 0; n < count; n++ {
		f := fill(root)
		steps := []map[string]interface{}{
			{"ev": "SetObj", "arg": map[string]interface{}{"t": "st", "f": f}},
			{"ev": "NewEmpty", "arg": map[string]interface{}{"t": "nil"}},
			{"ev": "CopyTo", "arg": map[string]interface{}{"t": "nil"}},
			{"ev": "FreshObj", "arg": map[string]interface{}{"t": "nil"}},
			{"ev": "CopyFrom", "arg": map[string]interface{}{"t": "nil"}},
		}
		out = append(out, vector{Shape: s.ID, Steps: steps})
	}
	return out, nil
}
