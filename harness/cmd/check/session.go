package main

import (
	"crypto/sha256"
	"encoding/hex"
	"encoding/json"
	"fmt"
	"io/ioutil"
	"math/rand"
	"os"
	"os/exec"
	"path/filepath"
	"regexp"
	"sort"
	"strings"
	"sync"
	"time"

	"verif/harness/absd"
	"verif/harness/pipeline"
)

// ViolInst is one failing clause instance on a REAL state.
type ViolInst struct {
	Clause    string `json:"clause"`
	Path      string `json:"path"`
	Sig       string `json:"sig"`
	Shape     string `json:"shape"`
	Behaviour string `json:"behaviour"`
	Line      int    `json:"line"`
	Ev        string `json:"ev"`
}

// DriftInst: the real post-state differs from the Impl model's prediction (no verdict).
type DriftInst struct {
	Shape     string `json:"shape"`
	Behaviour string `json:"behaviour"`
	Ev        string `json:"ev"`
	What      string `json:"what"`
}

// FamilyReport is the cached, property-independent outcome of running one family.
type FamilyReport struct {
	Family           string                     `json:"family"`
	Tier             string                     `json:"tier"`
	Seed             int64                      `json:"seed"`
	MCStates         int64                      `json:"mc_states"`
	MCGenerated      int64                      `json:"mc_generated"`
	MCWallS          float64                    `json:"mc_wall_s"`
	Shapes           int                        `json:"shapes"`
	Behaviours       int                        `json:"behaviours"`
	TraceLines       int                        `json:"trace_lines"`
	Accepted         bool                       `json:"accepted"` // every trace line was an instance of a spec action
	Evald            map[string]int             `json:"evald"`    // property -> lines on which its antecedent held
	Distinct         map[string]int             `json:"distinct"` // property -> distinct behaviours among those
	Violations       []ViolInst                 `json:"violations"`
	Drift            []DriftInst                `json:"drift"`
	ModelViol        map[string]int             `json:"model_viol"` // clause|sig -> count (Impl => Contract failures at the design level)
	CompileFail      map[string]string          `json:"compile_fail"`
	GenFail          map[string]string          `json:"gen_fail"`
	Unregistered     []string                   `json:"unregistered"`
	Samples          []json.RawMessage          `json:"samples"`
	Bundles          map[string]json.RawMessage `json:"bundles"` // clause|sig -> replay bundle (first instance)
	WallS            float64                    `json:"wall_s"`
	Cached           bool                       `json:"cached"`
	HarnessErr       []string                   `json:"harness_errors"`
	RandomBehaviours int                        `json:"random_behaviours"` // seeded random behaviours added by the harness
	AltRuns          int                        `json:"alt_runs"`          // alternative renderings of runs (C14 / C15 / C16) executed
	Sweep            map[string]interface{}     `json:"sweep,omitempty"`   // native float32 sweep of family boundary (C19)
}

// SessFamily describes one session family: which TLC model enumerates it.
type SessFamily struct {
	Name   string
	Module string
	Eval   []string // properties whose clauses the trace validator evaluates
	Random bool     // shapes are seeded random descriptors handed to TLC in a file
}

var sessFamilies = map[string]SessFamily{
	"empty":       {"empty", "MC_SessEmpty", []string{"C02", "C03", "C04", "C07", "C20"}, false},
	"reset":       {"reset", "MC_SessReset", []string{"C05", "C07"}, false},
	"echo":        {"echo", "MC_SessEcho", []string{"C08"}, false},
	"refresh":     {"refresh", "MC_SessRefresh", []string{"C09"}, false},
	"lifecycle":   {"lifecycle", "MC_Lifecycle", []string{"C08", "C09"}, false},
	"badfrom":     {"badfrom", "MC_SessBadFrom", []string{"C06"}, false},
	"badto":       {"badto", "MC_SessBadTo", []string{"C06"}, false},
	"genmap":      {"genmap", "MC_GenMap", []string{"C01", "C02"}, false},
	"genflags":    {"genflags", "MC_GenFlags", []string{"C10"}, false},
	"genselect":   {"genselect", "MC_GenSelect", []string{"C12", "C01"}, false},
	"genwhole":    {"genwhole", "MC_GenWhole", []string{"C18", "C03", "C02"}, false},
	"genconfig":   {"genconfig", "MC_GenConfig", []string{"C16"}, false},
	"gendet":      {"gendet", "MC_GenDet", []string{"C14"}, false},
	"gensort":     {"gensort", "MC_GenSort", []string{"C15"}, false},
	"gensep":      {"gensep", "MC_GenSep", []string{"C13", "C01"}, false},
	"genaddr":     {"genaddr", "MC_GenAddr", []string{"C11"}, false},
	"boundary":    {"boundary", "MC_Boundary", []string{"C19", "C04", "C03", "C20", "nodrift"}, false},
	"custom":      {"custom", "MC_Custom", []string{"C17"}, false},
	"customplan":  {"customplan", "MC_CustomPlan", []string{"C17"}, false},
	"planto":      {"planto", "MC_PlanTo", []string{"C06"}, false},
	"custombad":   {"custombad", "MC_CustomBad", []string{"C17"}, false},
	"custombadto": {"custombadto", "MC_CustomBadTo", []string{"C17"}, false},
	// the same scripts over seeded random descriptors (VERIF_SEED)
	"rnd-empty":   {"rnd-empty", "MC_RndEmpty", []string{"C02", "C03", "C04", "C07", "C20"}, true},
	"rnd-reset":   {"rnd-reset", "MC_RndReset", []string{"C05", "C07"}, true},
	"rnd-echo":    {"rnd-echo", "MC_RndEcho", []string{"C08"}, true},
	"rnd-refresh": {"rnd-refresh", "MC_RndRefresh", []string{"C09"}, true},
	"rnd-badfrom": {"rnd-badfrom", "MC_RndBadFrom", []string{"C06"}, true},
	"rnd-badto":   {"rnd-badto", "MC_RndBadTo", []string{"C06"}, true},
	"rnd-gen":     {"rnd-gen", "MC_RndGen", []string{"C01", "C02", "C10"}, true},
	"genexcl":     {"genexcl", "MC_GenExcl", []string{"C11", "C05"}, false},
}

type vector struct {
	Shape      string                   `json:"shape"`
	Steps      []map[string]interface{} `json:"steps"`
	ModelViol  []map[string]interface{} `json:"modelviol"`
	ModelPanic bool                     `json:"modelpanic"`
}

type shapeRec struct {
	ID      string          `json:"id"`
	D       json.RawMessage `json:"d"`
	Cfg     json.RawMessage `json:"cfg"`
	Root    string          `json:"root"`
	Run     string          `json:"run"`
	Group   string          `json:"group"`
	Role    string          `json:"role"`
	GChecks json.RawMessage `json:"gchecks"`
	Pair    json.RawMessage `json:"pair"`
}

func (s shapeRec) runKey() string {
	if s.Run != "" {
		return shapeKey(s.Run)
	}
	return shapeKey(s.ID)
}

var reKey = regexp.MustCompile(`[^a-z0-9]+`)

// shapeKey: directory / package name of a run.  The trailing _x keeps Go from reading a numeric or OS-like
// last word as a build constraint (a file s_..._386.pb.go is only compiled for GOARCH=386).
func shapeKey(id string) string {
	return "s_" + reKey.ReplaceAllString(strings.ToLower(id), "_") + "_x"
}

// driverStep converts a spec history step into a driver step.
func driverStep(st map[string]interface{}) map[string]interface{} {
	ev := st["ev"].(string)
	arg := normTLC(st["arg"])
	switch ev {
	case "SetObj":
		return map[string]interface{}{"ev": ev, "obj": arg}
	case "LoadRaw", "LoadPlan":
		return map[string]interface{}{"ev": ev, "tf": arg}
	case "NewEmpty":
		// the chosen form of the empty object: flags and a nil / empty Attrs map (absent: the plain one)
		if m, ok := arg.(map[string]interface{}); ok && m["k"] == "obj" {
			return map[string]interface{}{"ev": ev, "null": m["null"], "unk": m["unk"], "nilattrs": m["attrsnil"]}
		}
	}
	return map[string]interface{}{"ev": ev}
}

func repoHash() string {
	h := sha256.New()
	filepath.Walk(pipeline.RepoDir, func(p string, info os.FileInfo, err error) error {
		if err != nil {
			return nil
		}
		if info.IsDir() {
			if info.Name() == ".git" {
				return filepath.SkipDir
			}
			return nil
		}
		b, err := ioutil.ReadFile(p)
		if err == nil {
			h.Write([]byte(p))
			h.Write(b)
		}
		return nil
	})
	return hex.EncodeToString(h.Sum(nil))[:16]
}

func harnessHash() string {
	h := sha256.New()
	filepath.Walk(pipeline.HarnessDir, func(p string, info os.FileInfo, err error) error {
		if err != nil || info.IsDir() {
			return nil
		}
		if strings.HasSuffix(p, ".go") || strings.HasSuffix(p, "go.mod") {
			b, _ := ioutil.ReadFile(p)
			h.Write([]byte(p))
			h.Write(b)
		}
		return nil
	})
	return hex.EncodeToString(h.Sum(nil))[:16]
}

func cachePath(kind, name, tier string, seed int64, withRepo bool) string {
	k := specHash() + harnessHash()
	if withRepo {
		k += repoHash()
	}
	s := sha256.Sum256([]byte(k))
	return filepath.Join(cacheDir, fmt.Sprintf("%s-%s-%s-%d-%s.json", kind, name, tier, seed, hex.EncodeToString(s[:8])))
}

// enumerate runs the family's TLC model (cached: independent of /repo) and returns shapes + vectors.
func enumerate(w string, fam SessFamily, tier string, seed int64) ([]shapeRec, []vector, *TLCResult, error) {
	type cached struct {
		Shapes  []shapeRec `json:"shapes"`
		Vectors []vector   `json:"vectors"`
		Res     TLCResult  `json:"res"`
	}
	mcSeed := int64(0)
	if fam.Random {
		mcSeed = seed
	}
	cp := cachePath("mc", fam.Module, tier, mcSeed, false)
	if b, err := ioutil.ReadFile(cp); err == nil {
		var c cached
		if json.Unmarshal(b, &c) == nil && len(c.Vectors) > 0 {
			return c.Shapes, c.Vectors, &c.Res, nil
		}
	}
	dir := filepath.Join(w, "mc-"+fam.Module)
	if err := copySpec(dir); err != nil {
		return nil, nil, nil, err
	}
	cfg := fam.Module + ".cfg"
	if tier == "thorough" {
		cfg = fam.Module + "_thorough.cfg"
	}
	var tlcEnv []string
	if fam.Random {
		n, size := 10, 3
		if tier == "thorough" {
			n, size = 80, 5
		}
		sf := filepath.Join(dir, "shapes.json")
		if err := ioutil.WriteFile(sf, mustJSON(randomShapes("rnd", seed, n, size)), 0o644); err != nil {
			return nil, nil, nil, err
		}
		tlcEnv = []string{"VERIF_SHAPES=" + sf}
	}
	res, err := runTLC(dir, fam.Module+".tla", cfg, 12, 12000, 40*time.Minute, tlcEnv)
	if err != nil {
		return nil, nil, res, err
	}
	var shapes []shapeRec
	var vecs []vector
	for _, l := range res.Lines {
		if strings.HasPrefix(l, "SHAPES ") {
			if err := json.Unmarshal([]byte(l[7:]), &shapes); err != nil {
				return nil, nil, res, fmt.Errorf("bad SHAPES line: %v", err)
			}
			continue
		}
		var v vector
		if err := json.Unmarshal([]byte(l), &v); err != nil {
			return nil, nil, res, fmt.Errorf("bad vector line: %v: %.200s", err, l)
		}
		vecs = append(vecs, v)
	}
	// deterministic order whatever the worker interleaving was
	sort.SliceStable(vecs, func(i, j int) bool {
		if vecs[i].Shape != vecs[j].Shape {
			return vecs[i].Shape < vecs[j].Shape
		}
		return string(mustJSON(vecs[i].Steps)) < string(mustJSON(vecs[j].Steps))
	})
	res.Raw = ""
	res.Lines = nil
	os.MkdirAll(cacheDir, 0o755)
	ioutil.WriteFile(cp, mustJSON(cached{shapes, vecs, *res}), 0o644)
	os.RemoveAll(dir)
	return shapes, vecs, res, nil
}

// variantSeed: order of YAML / CLI entries.  Roles "perm<k>" of determinism groups get distinct seeds.
func variantSeed(s shapeRec, seed int64) int64 {
	if strings.HasPrefix(s.Role, "perm") {
		h := sha256.Sum256([]byte(s.Role + s.ID))
		return seed*1000003 + int64(h[0])<<8 + int64(h[1]) + 1
	}
	return 0
}

type behaviour struct {
	ID    string
	Key   string
	Shape string
	Meta  map[string]interface{}
	Steps []map[string]interface{}
}

// float32Sweep runs the driver's sweep mode on the root type of shape c19.float and returns one synthetic behaviour
// (copy of a template behaviour of that shape with the singular field set to the value) per reported value.
func float32Sweep(env *pipeline.Env, driver string, behs []behaviour, tier string) ([]behaviour, map[string]interface{}, error) {
	var tmpl *behaviour
	for i := range behs {
		if behs[i].Shape == "c19.float" && len(behs[i].Steps) > 0 && behs[i].Steps[0]["ev"] == "SetObj" {
			tmpl = &behs[i]
			break
		}
	}
	if tmpl == nil {
		return nil, map[string]interface{}{"skipped": "shape c19.float is not part of this run"}, nil
	}
	stride := "4099"
	if tier == "thorough" {
		stride = "61" // prime: every exponent and every low-bit pattern is visited; the full sweep (stride 1) takes ~50 min
	}
	out := filepath.Join(env.W, "sweep32.json")
	cmd := exec.Command(driver, "-sweep32", tmpl.Key, out, stride)
	if b, err := cmd.CombinedOutput(); err != nil {
		return nil, nil, fmt.Errorf("float32 sweep failed: %v: %s", err, b)
	}
	raw, err := ioutil.ReadFile(out)
	if err != nil {
		return nil, nil, err
	}
	var sw map[string]interface{}
	if err := json.Unmarshal(raw, &sw); err != nil {
		return nil, nil, err
	}
	var extra []behaviour
	vals, _ := sw["mismatches"].([]interface{})
	field, _ := sw["field"].(string)
	for i, v := range vals {
		if i >= 16 {
			break
		}
		nb := behaviour{ID: fmt.Sprintf("%s#sweep%d", tmpl.Shape, i), Key: tmpl.Key, Shape: tmpl.Shape, Meta: tmpl.Meta}
		for k, st := range tmpl.Steps {
			c := map[string]interface{}{}
			json.Unmarshal(mustJSON(st), &c)
			if k == 0 {
				if obj, ok := c["obj"].(map[string]interface{}); ok {
					if fs, ok := obj["f"].(map[string]interface{}); ok {
						fs[field] = map[string]interface{}{"t": "s", "s": v}
					}
				}
			}
			nb.Steps = append(nb.Steps, c)
		}
		extra = append(extra, nb)
	}
	return extra, sw, nil
}

func pairIsBase(pair interface{}) bool {
	pm, ok := pair.(map[string]interface{})
	return ok && pm["key"] != "" && pm["role"] == "base"
}

// validateTraces shards the trace by behaviours, runs Trace.tla on every shard in parallel and
// collects the per-line judgements.
func validateTraces(w string, tracePath string, shards int) (recs []map[string]interface{}, accepted bool, lines int, err error) {
	b, err := ioutil.ReadFile(tracePath)
	if err != nil {
		return nil, false, 0, err
	}
	all := strings.Split(strings.TrimRight(string(b), "\n"), "\n")
	lines = len(all)
	// behaviour boundaries; shards are cut only where the shape changes (the pairwise memory of the
	// trace specification is kept per shape)
	var starts []int
	lastShape := ""
	nbeh := 0
	for i, l := range all {
		if strings.HasPrefix(l, `{"ev":"Reset"`) {
			nbeh++
			var m struct {
				Meta struct {
					Shape string `json:"shape"`
					Cut   bool   `json:"cut"`
				} `json:"meta"`
			}
			json.Unmarshal([]byte(l), &m)
			if m.Meta.Shape != lastShape || len(starts) == 0 || m.Meta.Cut {
				starts = append(starts, i)
				lastShape = m.Meta.Shape
			}
		}
	}
	if len(starts) == 0 {
		return nil, false, lines, fmt.Errorf("trace has no behaviours")
	}
	type shard struct {
		from, to int // line indices [from, to)
		file     string
	}
	var shs []shard
	// at least `shards` pieces, and more when the trace is long: a piece of more than ~20 000 lines makes the validator's
	// JVM spend its time collecting garbage (the whole piece is one TLA+ sequence of records)
	if n := (len(all) + 19999) / 20000; n > shards {
		shards = n
	}
	target := (len(all) + shards - 1) / shards
	from := starts[0]
	for k := 1; k <= len(starts); k++ {
		end := len(all)
		if k < len(starts) {
			end = starts[k]
		}
		if end-from >= target || k == len(starts) {
			f := filepath.Join(w, fmt.Sprintf("trace-%03d.ndjson", len(shs)))
			if err := ioutil.WriteFile(f, []byte(strings.Join(all[from:end], "\n")+"\n"), 0o644); err != nil {
				return nil, false, lines, err
			}
			shs = append(shs, shard{from, end, f})
			from = end
		}
	}
	dir := filepath.Join(w, "tv")
	if err := copySpec(dir); err != nil {
		return nil, false, lines, err
	}
	results := make([]*TLCResult, len(shs))
	errs := make([]error, len(shs))
	var wg sync.WaitGroup
	sem := make(chan struct{}, 8)
	for i := range shs {
		wg.Add(1)
		sem <- struct{}{}
		go func(i int) {
			defer wg.Done()
			defer func() { <-sem }()
			results[i], errs[i] = runTLC(dir, "Trace.tla", "Trace.cfg", 1, 4000, 30*time.Minute, []string{"VERIF_TRACE=" + shs[i].file})
		}(i)
	}
	wg.Wait()
	accepted = true
	for i, r := range results {
		if r == nil {
			return nil, false, lines, errs[i]
		}
		sawAcc := false
		for _, l := range r.Lines {
			var m map[string]interface{}
			if err := json.Unmarshal([]byte(l), &m); err != nil {
				return nil, false, lines, fmt.Errorf("bad judgement line: %v", err)
			}
			if a, ok := m["accepted"]; ok {
				sawAcc = true
				if !a.(bool) {
					accepted = false
					consumed := int(m["consumed"].(float64))
					return nil, false, lines, fmt.Errorf("trace shard %s rejected: line %d is not an instance of any specification action:\n%.600s",
						shs[i].file, consumed+1, all[shs[i].from+consumed])
				}
				continue
			}
			m["l"] = float64(shs[i].from) + m["l"].(float64) // global line number (1-based)
			recs = append(recs, m)
		}
		if !sawAcc || errs[i] != nil {
			return nil, false, lines, fmt.Errorf("trace validation failed on shard %d: %v", i, errs[i])
		}
	}
	return recs, accepted, lines, nil
}

// runSessionFamily: enumerate with TLC, replay in the real code, validate the trace.
func runSessionFamily(env *pipeline.Env, fam SessFamily, tier string, seed int64, only string) (*FamilyReport, error) {
	start := time.Now()
	rep0Random := 0
	cp := cachePath("fam", fam.Name, tier, seed, true)
	if only == "" {
		if b, err := ioutil.ReadFile(cp); err == nil {
			var r FamilyReport
			if json.Unmarshal(b, &r) == nil && r.Family == fam.Name {
				r.Cached = true
				return &r, nil
			}
		}
	}
	shapes, vecs, mc, err := enumerate(env.W, fam, tier, seed)
	if err != nil {
		return nil, err
	}
	rep := &FamilyReport{Family: fam.Name, Tier: tier, Seed: seed, MCStates: mc.Distinct, MCGenerated: mc.Generated, MCWallS: mc.WallS,
		Evald: map[string]int{}, Distinct: map[string]int{}, ModelViol: map[string]int{}, CompileFail: map[string]string{},
		GenFail: map[string]string{}, Bundles: map[string]json.RawMessage{}, Violations: []ViolInst{}, Drift: []DriftInst{}}
	shapeByID := map[string]shapeRec{}
	for _, s := range shapes {
		shapeByID[s.ID] = s
	}
	if fam.Name == "boundary" {
		// seeded random values of the same Go types, judged by the same trace validation
		rng := rand.New(rand.NewSource(seed))
		n := 40
		if tier == "thorough" {
			n = 1500
		}
		for _, s := range shapes {
			rv, err := randomBoundary(s, rng, n)
			if err != nil {
				return nil, err
			}
			vecs = append(vecs, rv...)
		}
		sort.SliceStable(vecs, func(i, j int) bool { return vecs[i].Shape < vecs[j].Shape })
		rep0Random = len(shapes) * n
	}
	used := map[string]bool{}
	// groups without group-level checks keep only the pair memory (one base at a time): their trace may be cut
	// in front of every base behaviour and validated in parallel
	groupChecks := map[string]bool{}
	for _, s := range shapeByID {
		var gc []interface{}
		json.Unmarshal(s.GChecks, &gc)
		if len(gc) > 0 {
			groupChecks[s.Group] = true
		}
	}
	// ungrouped shapes: the validator keeps memory across the behaviours of one shape only for C05 (the first result per
	// input skeleton); every other family may be cut in front of any behaviour
	memoAcross := false
	for _, e := range fam.Eval {
		if e == "C05" {
			memoAcross = true
		}
	}
	var behs []behaviour
	for i, v := range vecs {
		for _, mv := range v.ModelViol {
			rep.ModelViol[fmt.Sprint(mv["c"], "|", mv["sig"])]++
		}
		s, ok := shapeByID[v.Shape]
		if !ok {
			return nil, fmt.Errorf("vector refers to unknown shape %q", v.Shape)
		}
		id := fmt.Sprintf("%s#%d", v.Shape, i)
		if only != "" && id != only {
			continue
		}
		used[v.Shape] = true
		var d, c interface{}
		json.Unmarshal(s.D, &d)
		json.Unmarshal(s.Cfg, &c)
		var gchecks, pair interface{}
		json.Unmarshal(s.GChecks, &gchecks)
		json.Unmarshal(s.Pair, &pair)
		if pm, ok := pair.(map[string]interface{}); ok && pm["key"] != "" {
			// behaviours are paired one to one: same pair key + same steps
			var steps interface{}
			json.Unmarshal(mustJSON(v.Steps), &steps)
			h := sha256.Sum256(mustJSON(steps))
			pm["key"] = fmt.Sprint(pm["key"], "/", hex.EncodeToString(h[:8]))
		}
		unit := v.Shape
		if s.Group != "" {
			unit = "group:" + s.Group
		}
		b := behaviour{ID: id, Key: s.runKey() + "/" + s.Root, Shape: v.Shape,
			Meta: map[string]interface{}{"d": d, "cfg": c, "root": s.Root, "eval": fam.Eval, "shape": unit, "shapeid": v.Shape,
				"run": s.runKey(), "group": s.Group, "role": s.Role, "gchecks": gchecks, "pair": pair,
				"cut": (s.Group != "" && !groupChecks[s.Group] && pairIsBase(pair)) || (s.Group == "" && !memoAcross)}}
		for _, st := range v.Steps {
			b.Steps = append(b.Steps, driverStep(st))
		}
		behs = append(behs, b)
	}
	// paired behaviours: a base behaviour is written immediately before its variants (same pair key = same
	// steps), so that the trace validator has to remember one base at a time
	pairKey := func(b behaviour) string {
		if pm, ok := b.Meta["pair"].(map[string]interface{}); ok {
			if k, _ := pm["key"].(string); k != "" {
				return k
			}
		}
		return ""
	}
	pairRole := func(b behaviour) int {
		if pm, ok := b.Meta["pair"].(map[string]interface{}); ok && pm["role"] == "base" {
			return 0
		}
		return 1
	}
	sort.SliceStable(behs, func(i, j int) bool {
		ui, uj := behs[i].Meta["shape"].(string), behs[j].Meta["shape"].(string)
		if pairKey(behs[i]) == "" || pairKey(behs[j]) == "" || ui != uj {
			return false
		}
		if pairKey(behs[i]) != pairKey(behs[j]) {
			return pairKey(behs[i]) < pairKey(behs[j])
		}
		return pairRole(behs[i]) < pairRole(behs[j])
	})
	if only != "" && len(behs) == 0 {
		return nil, fmt.Errorf("replay bundle names behaviour %q, which the current specification does not enumerate (stale bundle: behaviours are numbered per specification version)", only)
	}
	rep.Behaviours = len(behs)
	rep.Shapes = len(used)
	rep.RandomBehaviours = rep0Random
	// generate + compile every used shape with the real generator
	var variants []pipeline.Variant
	seenRun := map[string]bool{}
	for _, id := range sortedKeys(used) {
		s := shapeByID[id]
		if seenRun[s.runKey()] {
			continue
		}
		seenRun[s.runKey()] = true
		var d absd.Desc
		var c absd.Cfg
		if err := json.Unmarshal(s.D, &d); err != nil {
			return nil, fmt.Errorf("shape %s: descriptor: %v", id, err)
		}
		if err := json.Unmarshal(s.Cfg, &c); err != nil {
			return nil, fmt.Errorf("shape %s: config: %v", id, err)
		}
		// one proto package per shape: gogo's global registry rejects duplicate names in one binary
		d.Pkg = s.runKey()
		variants = append(variants, pipeline.Variant{Key: s.runKey(), D: d, C: c, Seed: variantSeed(s, seed)})
	}
	faulty := map[string]bool{}
	for _, v := range variants {
		if v.C.Fault != "" {
			faulty[v.Key] = true
		}
	}
	res, err := env.GenerateAll(variants, 12)
	if err != nil {
		return nil, err
	}
	driver, err := env.Build(res)
	if err != nil {
		return nil, err
	}
	genByKey := map[string]map[string]interface{}{}
	for _, r := range res {
		genByKey[r.Key] = pipeline.ToJSON(r)
		if r.Compile != "" {
			rep.CompileFail[r.Key] = r.Compile
		}
		if (r.Exit != 0 || r.Content == "") && !faulty[r.Key] {
			rep.GenFail[r.Key] = fmt.Sprintf("exit %d: %.400s", r.Exit, r.Stderr)
		}
		rep.AltRuns += len(r.Alts)
	}
	// C19: every finite float32 (quick: every 4099th bit pattern) through the real converters of shape c19.float;
	// values that do not come back become ordinary behaviours, judged by Trace.tla below
	if fam.Name == "boundary" && only == "" {
		extra, sw, err := float32Sweep(env, driver, behs, tier)
		if err != nil {
			return nil, err
		}
		rep.Sweep = sw
		behs = append(behs, extra...)
		rep.Behaviours = len(behs)
	}
	vecPath := filepath.Join(env.W, "vectors-"+fam.Name+".ndjson")
	f, err := os.Create(vecPath)
	if err != nil {
		return nil, err
	}
	for _, b := range behs {
		b.Meta["gen"] = genByKey[b.Meta["run"].(string)]
		// the descriptor the run really used (package renamed per run)
		if dm, ok := b.Meta["d"].(map[string]interface{}); ok {
			dm["pkg"] = b.Meta["run"]
		}
		f.Write(mustJSON(map[string]interface{}{"id": b.ID, "key": b.Key, "meta": b.Meta, "steps": b.Steps}))
		f.Write([]byte("\n"))
	}
	f.Close()
	tracePath := filepath.Join(env.W, "trace-"+fam.Name+".ndjson")
	if err := env.RunDriver(driver, vecPath, tracePath); err != nil {
		return nil, err
	}
	recs, acc, lines, err := validateTraces(env.W, tracePath, 8)
	if err != nil {
		return nil, err
	}
	rep.Accepted, rep.TraceLines = acc, lines
	// harness errors / unregistered behaviours
	tb, _ := ioutil.ReadFile(tracePath)
	traceLines := strings.Split(strings.TrimRight(string(tb), "\n"), "\n")
	behLines := map[string][]string{}
	cur := ""
	for _, l := range traceLines {
		if strings.HasPrefix(l, `{"ev":"Reset"`) {
			var m struct {
				ID         string `json:"id"`
				Registered bool   `json:"registered"`
			}
			json.Unmarshal([]byte(l), &m)
			cur = m.ID
			if !m.Registered {
				rep.Unregistered = append(rep.Unregistered, m.ID)
			}
		}
		if strings.HasPrefix(l, `{"ev":"HarnessError"`) {
			rep.HarnessErr = append(rep.HarnessErr, fmt.Sprintf("%s: %.300s", cur, l))
		}
		behLines[cur] = append(behLines[cur], l)
	}
	behByID := map[string]behaviour{}
	for _, b := range behs {
		behByID[b.ID] = b
	}
	distinct := map[string]map[string]bool{}
	for _, m := range recs {
		id, _ := m["id"].(string)
		b := behByID[id]
		if ev, ok := m["evald"].([]interface{}); ok {
			for _, p := range ev {
				ps := p.(string)
				rep.Evald[ps]++
				if distinct[ps] == nil {
					distinct[ps] = map[string]bool{}
				}
				distinct[ps][id] = true
			}
		}
		if d, _ := m["drift"].(bool); d {
			rep.Drift = append(rep.Drift, DriftInst{Shape: b.Shape, Behaviour: id, Ev: fmt.Sprint(m["ev"]), What: fmt.Sprint(m["what"])})
		}
		if vs, ok := m["viol"].([]interface{}); ok {
			for _, v := range vs {
				vm := v.(map[string]interface{})
				vi := ViolInst{Clause: fmt.Sprint(vm["c"]), Path: fmt.Sprint(vm["p"]), Sig: fmt.Sprint(vm["sig"]), Shape: b.Shape,
					Behaviour: id, Line: int(m["l"].(float64)), Ev: fmt.Sprint(m["ev"])}
				rep.Violations = append(rep.Violations, vi)
				k := vi.Clause + "|" + vi.Sig
				if _, ok := rep.Bundles[k]; !ok {
					rep.Bundles[k] = mustJSON(map[string]interface{}{
						"family": fam.Name, "tier": tier, "seed": seed, "behaviour": id, "violation": vi,
						"vector":     map[string]interface{}{"id": b.ID, "key": b.Key, "meta": b.Meta, "steps": b.Steps},
						"real_trace": behLines[id]})
				}
			}
		}
	}
	for p, s := range distinct {
		rep.Distinct[p] = len(s)
	}
	// a few samples: behaviours with the real post-states
	for i := 0; i < len(behs) && len(rep.Samples) < 3; i += 1 + len(behs)/3 {
		rep.Samples = append(rep.Samples, mustJSON(map[string]interface{}{"behaviour": behs[i].ID, "steps": behs[i].Steps, "real_trace_lines": len(behLines[behs[i].ID])}))
	}
	rep.WallS = time.Since(start).Seconds()
	if only == "" && len(rep.HarnessErr) == 0 {
		os.MkdirAll(cacheDir, 0o755)
		ioutil.WriteFile(cp, mustJSON(rep), 0o644)
	}
	return rep, nil
}
