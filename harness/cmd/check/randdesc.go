package main

import (
	"fmt"
	"math/rand"

	"verif/harness/absd"
)

// Random descriptors inside the supported fragment D (DESIGN.md §3), built from the name pool of
// spec/Names.tla.  They feed the rnd-* families: TLC reads them as Shapes, enumerates values and histories
// for them with the same Session machine, and the real code is driven with the result.

var (
	rndScalarTys = []string{"double", "float", "int64", "uint64", "int32", "fixed64", "fixed32", "bool", "string", "bytes",
		"uint32", "sfixed32", "sfixed64", "sint32", "sint64"}
	rndPlainNames = []string{"Str", "Num", "Flt", "Flag", "Raw", "Kind", "Items", "Tags", "When", "Whens", "Dur", "Durs",
		"FooBar", "lower_num", "Alpha", "Zed", "Fd", "Fe", "Ff", "Fg", "Fh", "Fi", "Fj", "Fk", "a_b", "x_y_z", "max_t_t_l"}
	rndEmbedNames = []string{"Fa", "Fb", "Fc", "Fl", "Fm", "Fn", "Fo"} // fields of embeddable messages only
	rndMsgFields  = []string{"Sub", "Sub2", "Subs", "Dict", "Extra", "Nothing", "Mid"}
	rndBranches   = []string{"BranchA", "BranchB", "BranchC", "BranchD", "branch_e"}
	rndGroups     = []string{"Grp", "Grp2", "lower_grp"}
)

func baseFld(name string, num int, ty string) absd.Fld {
	return absd.Fld{Name: name, Num: num, Ty: ty, Card: "one", Nullable: true, Comment: []absd.CLine{}}
}

type rgen struct {
	rng *rand.Rand
	// customDur: the configuration names "Duration" as duration_custom_type; integer fields are then also cast to
	// names which merely END in it
	customDur bool
}

func (g *rgen) pick(s []string) string { return s[g.rng.Intn(len(s))] }

// scalarField: a scalar-ish field (plain scalar, enum, cast, time, duration) with random cardinality
func (g *rgen) scalarField(name string, num int, allowOneofShapes bool) absd.Fld {
	f := baseFld(name, num, g.pick(rndScalarTys))
	switch g.rng.Intn(10) {
	case 0:
		f.Ty = "enum"
	case 1:
		f.Ty = "string"
		f.Cast = "CastStr"
	case 2:
		f.Ty, f.Std = "timestamp", "time"
		f.Nullable = g.rng.Intn(2) == 0
	case 3:
		f.Ty, f.Std = "duration", "duration"
		f.Nullable = g.rng.Intn(2) == 0
	case 4:
		f.Ty, f.Cast = "int64", "time.Duration"
	case 5:
		if g.customDur {
			f.Ty, f.Cast = "int64", []string{"Duration", "BlockDuration", "XtimeDuration"}[g.rng.Intn(3)]
		}
	}
	switch g.rng.Intn(5) {
	case 0:
		f.Card = "rep"
		if f.Std != "" {
			f.Nullable = true
		}
	case 1:
		// maps: scalars, enums, and std time / duration (the option sits on the map field, not on the entry's value)
		f.Card, f.MapKey = "map", "string"
		f.Cast = ""
		if f.Std != "" {
			f.Nullable = true
		}
	}
	return f
}

func comment(g *rgen) []absd.CLine {
	if g.rng.Intn(3) != 0 {
		return []absd.CLine{}
	}
	c := []absd.CLine{{Pre: " ", W: []string{"random", "comment"}, Post: ""}}
	if g.rng.Intn(2) == 0 {
		c = append(c, absd.CLine{Pre: "\t ", W: []string{"second", "line"}, Post: " \r"})
	}
	return c
}

// randomShape builds one random (descriptor, configuration) pair with root "Root".
func randomShape(id string, rng *rand.Rand, size int) (absd.Desc, absd.Cfg) {
	g := &rgen{rng: rng, customDur: rng.Intn(3) == 0}
	// Leaf: scalars only
	leaf := absd.Msg{Name: "Leaf", Oneofs: []string{}, Comment: []absd.CLine{}}
	names := rng.Perm(len(rndPlainNames))
	for i := 0; i < 1+rng.Intn(3); i++ {
		leaf.Fields = append(leaf.Fields, g.scalarField(rndPlainNames[names[i]], i+1, false))
	}
	// Inner: embeddable, fields from the embed pool, primitive or (sometimes) with a list / message child
	inner := absd.Msg{Name: "Inner", Oneofs: []string{}, Comment: []absd.CLine{}}
	en := rng.Perm(len(rndEmbedNames))
	for i := 0; i < 1+rng.Intn(3); i++ {
		f := g.scalarField(rndEmbedNames[en[i]], i+1, false)
		if rng.Intn(4) != 0 { // mostly plain singular scalars: the supported kind of embedded message
			f.Card, f.MapKey = "one", ""
		}
		inner.Fields = append(inner.Fields, f)
	}
	empty := absd.Msg{Name: "Empty", Fields: []absd.Fld{}, Oneofs: []string{}, Comment: []absd.CLine{}}
	// Mid: leaf-like plus nested messages and possibly a oneof
	mk := func(name string, canNest []string, n int) absd.Msg {
		m := absd.Msg{Name: name, Oneofs: []string{}, Comment: comment(g)}
		pn := rng.Perm(len(rndPlainNames))
		mn := rng.Perm(len(rndMsgFields))
		pi, mi, num := 0, 0, 1
		usedFoo := false
		for i := 0; i < n; i++ {
			switch k := rng.Intn(10); {
			case k < 5 || len(canNest) == 0: // scalar-ish
				nm := rndPlainNames[pn[pi]]
				pi++
				if nm == "FooBar" {
					if usedFoo {
						continue
					}
					usedFoo = true
				}
				f := g.scalarField(nm, num, false)
				f.Comment = comment(g)
				m.Fields = append(m.Fields, f)
			case k < 8: // message-typed field
				f := baseFld(rndMsgFields[mn[mi]], num, "msg")
				mi++
				f.Ref = g.pick(canNest)
				if f.Name == "Nothing" {
					f.Ref = "Empty"
				}
				f.Nullable = rng.Intn(3) != 0
				switch rng.Intn(4) {
				case 0:
					f.Card = "rep"
				case 1:
					f.Card, f.MapKey = "map", "string"
				}
				m.Fields = append(m.Fields, f)
			case k == 8 && len(m.Oneofs) < 2: // a oneof group
				grp := rndGroups[len(m.Oneofs)]
				m.Oneofs = append(m.Oneofs, grp)
				pool := rndBranches[:2]
				if len(m.Oneofs) == 2 {
					pool = rndBranches[2:]
				}
				nb := 1 + rng.Intn(len(pool))
				for b := 0; b < nb; b++ {
					bn := pool[b]
					bf := baseFld(bn, num, []string{"string", "int32", "bool", "enum", "msg"}[rng.Intn(5)])
					if bf.Ty == "msg" {
						bf.Ref = g.pick(append([]string{"Empty"}, canNest...))
					}
					bf.Oneof = grp
					m.Fields = append(m.Fields, bf)
					num++
				}
				continue
			default: // embed Inner once
				has := false
				for _, f := range m.Fields {
					if f.Embed {
						has = true
					}
				}
				if has {
					continue
				}
				f := baseFld("Inner", num, "msg")
				f.Ref, f.Embed = "Inner", true
				f.Nullable = rng.Intn(2) == 0
				m.Fields = append(m.Fields, f)
			}
			num++
		}
		if len(m.Fields) == 0 {
			m.Fields = append(m.Fields, baseFld("Str", 1, "string"))
		}
		return m
	}
	mid := mk("Mid", []string{"Leaf"}, 1+rng.Intn(3))
	other := mk("Other", []string{"Leaf", "Mid"}, 1+rng.Intn(3))
	root := mk("Root", []string{"Leaf", "Mid", "Other"}, 1+rng.Intn(size))
	d := absd.Desc{Pkg: "tp", Msgs: []absd.Msg{leaf, inner, empty, mid, other, root}, Deps: []absd.Dep{}}
	if rng.Intn(4) == 0 {
		// Leaf lives in another file of the same package
		d.Msgs = []absd.Msg{inner, empty, mid, other, root}
		d.Deps = []absd.Dep{{Pkg: "lim", Share: true, Msgs: []absd.Msg{leaf}}}
	}
	c := absd.Cfg{Types: []string{"Root"}, Sort: rng.Intn(2) == 0, TimeType: true, DurationType: true,
		Exclude: []string{}, Required: []string{}, Computed: []string{}, Sensitive: []string{}, NameOverrides: []absd.KV{}, SchemaTypes: []absd.KV{},
		Validators: []absd.KVs{}, PlanModifiers: []absd.KVs{}, Injected: []absd.KInj{}, CustomTypes: []absd.KV{}, Suffixes: []absd.KV{},
		Channel: []absd.KV{}, Alts: []absd.Alt{}}
	// flags on random root fields (full path) and leaf fields (Message.field)
	for _, f := range root.Fields {
		key := "Root." + f.Name
		switch rng.Intn(12) {
		case 0:
			c.Computed = append(c.Computed, key)
		case 1:
			c.Required = append(c.Required, key)
		case 2:
			c.Sensitive = append(c.Sensitive, key)
		case 3:
			if f.Oneof == "" && !f.Embed && len(root.Fields) > 1 && len(c.Exclude) == 0 {
				c.Exclude = append(c.Exclude, key)
			}
		case 4:
			c.Validators = append(c.Validators, absd.KVs{K: key, V: []string{"1", "2"}})
		}
	}
	if rng.Intn(3) == 0 {
		c.Computed = append(c.Computed, "Leaf."+leaf.Fields[0].Name)
		c.USFU = true
	}
	if g.customDur {
		c.DurationCustom = "Duration"
	}
	// a field of a nested message addressed by its full path (and, sometimes, by Message.field as well)
	for _, f := range root.Fields {
		if f.Ty != "msg" || f.Embed || f.Oneof != "" || rng.Intn(3) != 0 {
			continue
		}
		var sub *absd.Msg
		for i := range d.Msgs {
			if d.Msgs[i].Name == f.Ref {
				sub = &d.Msgs[i]
			}
		}
		if f.Ref == "Leaf" {
			sub = &leaf
		}
		if sub == nil || len(sub.Fields) == 0 || sub.Fields[0].Embed || sub.Fields[0].Oneof != "" {
			continue
		}
		key := "Root." + f.Name + "." + sub.Fields[0].Name
		switch rng.Intn(3) {
		case 0:
			c.Required = append(c.Required, key)
		case 1:
			c.Sensitive = append(c.Sensitive, key)
			c.Computed = append(c.Computed, sub.Name+"."+sub.Fields[0].Name)
		case 2:
			c.Validators = append(c.Validators, absd.KVs{K: key, V: []string{"3"}})
			if rng.Intn(2) == 0 {
				c.Validators = append(c.Validators, absd.KVs{K: sub.Name + "." + sub.Fields[0].Name, V: []string{"1"}})
			}
		}
	}
	if rng.Intn(4) == 0 {
		c.Injected = append(c.Injected, absd.KInj{K: "Root", V: []absd.Inj{{Name: "id", Type: "string", Computed: true, Validators: []string{}, PlanMods: []string{}}}})
	}
	_ = fmt.Sprint(id)
	return d, c
}

// randomShapes: n random shapes as the JSON records spec/Shapes.tla Shape() would build.
func randomShapes(prefix string, seed int64, n, size int) []map[string]interface{} {
	rng := rand.New(rand.NewSource(seed*7919 + 17))
	var out []map[string]interface{}
	for i := 0; i < n; i++ {
		id := fmt.Sprintf("%s.%d.%d", prefix, seed, i)
		d, c := randomShape(id, rng, size)
		out = append(out, map[string]interface{}{
			"id": id, "d": d, "cfg": c, "root": "Root", "run": id, "group": "", "role": "", "gchecks": []interface{}{},
			"pair": map[string]interface{}{"key": "", "role": "", "clause": "", "prop": "", "exclkey": ""},
		})
	}
	return out
}
