package main

import (
	"encoding/json"
	"fmt"
	"io/ioutil"
	"os"
	"path/filepath"
	"strings"
)

// bindingSelfTest demonstrates that the specification is bound to what the code does (DESIGN.md §5.6): a trace
// recorded from the real generated code is accepted with every clause evaluated; the same trace with one recorded
// field corrupted is reported (by the matching Contract clause and as drift), a line that is no action of the
// specification makes the trace unacceptable, and a removed line takes the clauses it enabled with it.
func bindingSelfTest(w string) error {
	raw, err := ioutil.ReadFile(filepath.Join(verifRoot, "selftest", "trace_ok.ndjson"))
	if err != nil {
		return err
	}
	lines := strings.Split(strings.TrimRight(string(raw), "\n"), "\n")
	if len(lines) != 6 {
		return fmt.Errorf("selftest trace: expected 6 lines, got %d", len(lines))
	}
	parse := func(l string) map[string]interface{} {
		var m map[string]interface{}
		if err := json.Unmarshal([]byte(l), &m); err != nil {
			panic(err)
		}
		return m
	}
	write := func(name string, ls []string) string {
		p := filepath.Join(w, name)
		ioutil.WriteFile(p, []byte(strings.Join(ls, "\n")+"\n"), 0o644)
		return p
	}
	type outcome struct {
		clauses map[string]bool
		drift   bool
		evald   map[string]bool
		err     error
	}
	run := func(name string, ls []string) outcome {
		dir := filepath.Join(w, "st-"+name)
		os.MkdirAll(dir, 0o755)
		recs, _, _, err := validateTraces(dir, write(name+".ndjson", ls), 1)
		o := outcome{clauses: map[string]bool{}, evald: map[string]bool{}, err: err}
		for _, r := range recs {
			if d, _ := r["drift"].(bool); d {
				o.drift = true
			}
			if vs, ok := r["viol"].([]interface{}); ok {
				for _, v := range vs {
					o.clauses[fmt.Sprint(v.(map[string]interface{})["c"])] = true
				}
			}
			if es, ok := r["evald"].([]interface{}); ok {
				for _, e := range es {
					o.evald[fmt.Sprint(e)] = true
				}
			}
		}
		return o
	}
	mutate := func(idx int, f func(m map[string]interface{})) []string {
		ls := append([]string{}, lines...)
		m := parse(ls[idx])
		f(m)
		ls[idx] = string(mustJSON(m))
		return ls
	}
	attrs := func(m map[string]interface{}) map[string]interface{} {
		return m["tf"].(map[string]interface{})["attrs"].(map[string]interface{})
	}
	// 0. the recorded trace itself
	ok := run("ok", lines)
	if ok.err != nil || len(ok.clauses) != 0 || ok.drift || !ok.evald["C03"] || !ok.evald["C04"] || !ok.evald["C20"] {
		return fmt.Errorf("the recorded trace is not accepted cleanly: err=%v clauses=%v drift=%v evald=%v", ok.err, ok.clauses, ok.drift, ok.evald)
	}
	// 1. a null flag flipped in the recorded result of CopyTo
	a := run("nullflip", mutate(3, func(m map[string]interface{}) {
		s := attrs(m)["str"].(map[string]interface{})
		s["null"] = !s["null"].(bool)
	}))
	if a.err != nil || !a.clauses["C20.scalar.null_iff_zero"] || !a.drift {
		return fmt.Errorf("flipping a recorded null flag was not noticed: %+v", a)
	}
	// 2. an attribute renamed in the recorded result of CopyTo
	b := run("rename", mutate(3, func(m map[string]interface{}) {
		at := attrs(m)
		at["itemz"] = at["items"]
		delete(at, "items")
	}))
	if b.err != nil || !b.clauses["C03.present"] || !b.clauses["C03.typed"] {
		return fmt.Errorf("renaming a recorded attribute was not noticed: %+v", b)
	}
	// 3. a field value changed in the recorded result of CopyFrom
	c := run("value", mutate(5, func(m map[string]interface{}) {
		m["obj"].(map[string]interface{})["f"].(map[string]interface{})["Str"].(map[string]interface{})["s"] = "6161"
	}))
	if c.err != nil || !c.clauses["C04.roundtrip"] {
		return fmt.Errorf("changing a recorded field value was not noticed: %+v", c)
	}
	// 4. a line that is no action of the specification
	d := run("bogus", mutate(3, func(m map[string]interface{}) { m["ev"] = "Bogus" }))
	if d.err == nil || !strings.Contains(d.err.Error(), "not an instance of any specification action") {
		return fmt.Errorf("a line that is no action of the specification was accepted: %v", d.err)
	}
	// 5. a removed line: without NewEmpty the CopyTo is no copy into an empty object any more
	e := run("removed", append(append([]string{}, lines[:2]...), lines[3:]...))
	if e.err != nil || e.evald["C03"] || e.evald["C20"] {
		return fmt.Errorf("removing the NewEmpty line went unnoticed: %+v", e)
	}
	return nil
}
