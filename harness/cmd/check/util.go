package main

import (
	"bytes"
	"os/exec"
)

func runCmd(dir string, name string, args ...string) (string, error) {
	cmd := exec.Command(name, args...)
	cmd.Dir = dir
	var out bytes.Buffer
	cmd.Stdout = &out
	cmd.Stderr = &out
	err := cmd.Run()
	return out.String(), err
}
