// runjob: generate + compile + run a job file {variants:[...], behaviours:[...]}; prints generation results and
// writes the trace.  Used for manual experiments and by the seeded-change demonstrations.
package main

import (
	"encoding/json"
	"fmt"
	"io/ioutil"
	"os"
	"path/filepath"

	"verif/harness/pipeline"
)

type job struct {
	Variants   []pipeline.Variant       `json:"variants"`
	Behaviours []map[string]interface{} `json:"behaviours"`
}

func main() {
	if len(os.Args) < 3 {
		fmt.Fprintln(os.Stderr, "usage: runjob <job.json> <workdir> [keep]")
		os.Exit(2)
	}
	b, err := ioutil.ReadFile(os.Args[1])
	if err != nil {
		panic(err)
	}
	var j job
	if err := json.Unmarshal(b, &j); err != nil {
		panic(err)
	}
	env, err := pipeline.NewEnv(os.Args[2])
	if err != nil {
		fmt.Fprintln(os.Stderr, err)
		os.Exit(2)
	}
	res, err := env.GenerateAll(j.Variants, 8)
	if err != nil {
		fmt.Fprintln(os.Stderr, err)
		os.Exit(2)
	}
	drv, err := env.Build(res)
	if err != nil {
		fmt.Fprintln(os.Stderr, err)
		os.Exit(2)
	}
	for _, r := range res {
		o, _ := json.Marshal(r)
		fmt.Println(string(o))
		if r.Compile != "" {
			fmt.Println("COMPILE ERROR:", r.Compile)
		}
		if r.Exit != 0 {
			fmt.Println("STDERR:", r.Stderr)
		}
	}
	vec := filepath.Join(os.Args[2], "vectors.ndjson")
	f, _ := os.Create(vec)
	for _, b := range j.Behaviours {
		o, _ := json.Marshal(b)
		f.Write(o)
		f.Write([]byte("\n"))
	}
	f.Close()
	tr := filepath.Join(os.Args[2], "trace.ndjson")
	if err := env.RunDriver(drv, vec, tr); err != nil {
		fmt.Fprintln(os.Stderr, err)
		os.Exit(2)
	}
	fmt.Println("trace:", tr)
}
