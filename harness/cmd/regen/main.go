// regen: re-runs a plugin binary on the descriptor embedded in /repo/test/test.pb.go with /repo/test/config.yaml
// and prints the generated file.  Used to keep test/test_terraform.go in step with "fix:" commits: the diff of
// the outputs before / after a fix is applied to the checked-in file.
package main

import (
	"bytes"
	"compress/gzip"
	"fmt"
	"go/ast"
	"go/parser"
	"go/token"
	"io/ioutil"
	"os"
	"os/exec"
	"strconv"

	"github.com/gogo/protobuf/proto"
	descriptor "github.com/gogo/protobuf/protoc-gen-gogo/descriptor"
	plugin "github.com/gogo/protobuf/protoc-gen-gogo/plugin"

	"verif/harness/absd"
	"verif/harness/concretise"
)

func embedded(path string) *descriptor.FileDescriptorProto {
	fset := token.NewFileSet()
	f, err := parser.ParseFile(fset, path, nil, 0)
	if err != nil {
		panic(err)
	}
	var gz []byte
	ast.Inspect(f, func(n ast.Node) bool {
		vs, ok := n.(*ast.ValueSpec)
		if !ok || len(vs.Names) != 1 || len(vs.Values) != 1 {
			return true
		}
		if len(vs.Names[0].Name) < 15 || vs.Names[0].Name[:15] != "fileDescriptor_" {
			return true
		}
		cl, ok := vs.Values[0].(*ast.CompositeLit)
		if !ok {
			return true
		}
		for _, e := range cl.Elts {
			bl := e.(*ast.BasicLit)
			v, err := strconv.ParseUint(bl.Value, 0, 8)
			if err != nil {
				panic(err)
			}
			gz = append(gz, byte(v))
		}
		return false
	})
	r, err := gzip.NewReader(bytes.NewReader(gz))
	if err != nil {
		panic(err)
	}
	b, _ := ioutil.ReadAll(r)
	fd := &descriptor.FileDescriptorProto{}
	if err := proto.Unmarshal(b, fd); err != nil {
		panic(err)
	}
	return fd
}

func main() {
	if len(os.Args) != 2 {
		fmt.Fprintln(os.Stderr, "usage: regen <plugin binary>")
		os.Exit(2)
	}
	fd := embedded("/repo/test/test.pb.go")
	req := concretise.Request(absd.Desc{Pkg: "unused"}, concretise.Layout{StructImport: "unused"})
	req.ProtoFile = req.ProtoFile[:len(req.ProtoFile)-1]
	req.ProtoFile = append(req.ProtoFile, fd)
	req.FileToGenerate = []string{fd.GetName()}
	req.Parameter = proto.String("config=/repo/test/config.yaml")
	b, err := proto.Marshal(req)
	if err != nil {
		panic(err)
	}
	cmd := exec.Command(os.Args[1])
	cmd.Stdin = bytes.NewReader(b)
	var out, errb bytes.Buffer
	cmd.Stdout, cmd.Stderr = &out, &errb
	if err := cmd.Run(); err != nil {
		fmt.Fprintln(os.Stderr, errb.String())
		panic(err)
	}
	resp := &plugin.CodeGeneratorResponse{}
	if err := proto.Unmarshal(out.Bytes(), resp); err != nil {
		panic(err)
	}
	if len(resp.File) != 1 {
		panic(fmt.Sprint("files: ", len(resp.File), " ", resp.GetError()))
	}
	fmt.Print(resp.File[0].GetContent())
}
