#!/bin/bash
# seedcheck.sh <PROP> [check ids...]: verify an independently produced breaking change in its scratch worktree
# (/tmp/seed/<PROP>), store it under /verif/seeded/<PROP>/, then run the given checks (default: <PROP>) against /repo
# with the change applied and undo it straight afterwards.
set -u
P=$1; shift
CHECKS=${@:-$P}
W=/tmp/seed/$P
export GOFLAGS=-mod=mod GOPROXY=off GOSUMDB=off GOTOOLCHAIN=local
cd $W || exit 2
git diff -- . ':(exclude)demo' ':(exclude).scratch' > /tmp/seed/$P.patch
[ -s /tmp/seed/$P.patch ] || { echo "no source change in $W"; exit 2; }
echo "== patch: $(grep -c '^[-+][^-+]' /tmp/seed/$P.patch) changed lines in $(grep '^+++ ' /tmp/seed/$P.patch | tr '\n' ' ')"
go build ./... >/dev/null 2>&1 && echo "build: ok" || echo "build: FAIL"
go test -vet=off -count=1 ./... >/tmp/seed/$P.test.log 2>&1 && echo "tests: pass" || { echo "tests: FAIL"; tail -5 /tmp/seed/$P.test.log; }
RUN=$(ls demo/run.sh 2>/dev/null)
if [ -n "$RUN" ]; then
  (timeout 900 bash demo/run.sh >/tmp/seed/$P.demo.with.log 2>&1); WITH=$?
  git apply -R /tmp/seed/$P.patch
  (timeout 900 bash demo/run.sh >/tmp/seed/$P.demo.without.log 2>&1); WITHOUT=$?
  git apply /tmp/seed/$P.patch
  echo "demo: with change exit=$WITH, without exit=$WITHOUT"
else
  echo "demo: no demo/run.sh"; WITH=-1; WITHOUT=-1
fi
D=/verif/seeded/$P
mkdir -p $D
cp /tmp/seed/$P.patch $D/patch.diff
rm -rf $D/demo; mkdir -p $D/demo
(cd demo 2>/dev/null && find . -type f \( -name '*.go' -o -name '*.sh' -o -name '*.txt' -o -name 'go.mod' -o -name '*.md' -o -name '*.yaml' \) -not -path './_*' -not -path './bin/*' -size -200k | while read f; do mkdir -p $D/demo/$(dirname $f); cp $f $D/demo/$f; done)
tail -15 /tmp/seed/$P.demo.with.log > $D/demo/output_with_change.txt 2>/dev/null
tail -5 /tmp/seed/$P.demo.without.log > $D/demo/output_without_change.txt 2>/dev/null
# run the checks against /repo with the change applied
cd /verif
git -C /repo apply /tmp/seed/$P.patch || { echo "patch does not apply to /repo"; exit 2; }
RES=""
for c in $CHECKS; do
  timeout 1800 ./check $c --tier quick > /tmp/seed/$P.check.$c.log 2>&1; E=$?
  echo "check $c: exit=$E  $(grep -c '^VIOLATION' /tmp/seed/$P.check.$c.log) violation groups; $(grep -c '^DRIFT' /tmp/seed/$P.check.$c.log) drift"
  grep -A1 '^VIOLATION' /tmp/seed/$P.check.$c.log | grep clause= | head -4
  RES="$RES $c:$E"
done
git -C /repo checkout -- .
git -C /repo status --short | head -3
echo "RESULT $P demo_with=$WITH demo_without=$WITHOUT checks:$RES"
