#!/bin/bash
# seedcheck.sh <PROP> [check ids...]: verify an independently produced breaking change in its scratch worktree
# (/tmp/seed/<PROP>), store it under /verif/seeded/<PROP>/, then run the given checks (default: <PROP>) against /repo
# with the change applied and undo it straight afterwards.
set -u
export VERIF_NO_EVIDENCE=1   # runs against a patched /repo say nothing about the unchanged tree
P=$1; shift
CHECKS=${@:-$P}
BASE=${SEEDBASE:-/tmp/seed}; SUF=${SEEDSUFFIX:-}; W=$BASE/$P
export GOFLAGS=-mod=mod GOPROXY=off GOSUMDB=off GOTOOLCHAIN=local
cd $W || exit 2
git diff -- . ':(exclude)demo' ':(exclude).scratch' > $BASE/$P.patch
[ -s $BASE/$P.patch ] || { echo "no source change in $W"; exit 2; }
echo "== patch: $(grep -c '^[-+][^-+]' $BASE/$P.patch) changed lines in $(grep '^+++ ' $BASE/$P.patch | tr '\n' ' ')"
go build ./... >/dev/null 2>&1 && echo "build: ok" || echo "build: FAIL"
go test -vet=off -count=1 ./... >$BASE/$P.test.log 2>&1 && echo "tests: pass" || { echo "tests: FAIL"; tail -5 $BASE/$P.test.log; }
RUN=$(ls demo/run.sh 2>/dev/null)
if [ -n "$RUN" ]; then
  (timeout 900 bash demo/run.sh >$BASE/$P.demo.with.log 2>&1); WITH=$?
  git apply -R $BASE/$P.patch
  (timeout 900 bash demo/run.sh >$BASE/$P.demo.without.log 2>&1); WITHOUT=$?
  git apply $BASE/$P.patch
  echo "demo: with change exit=$WITH, without exit=$WITHOUT"
else
  echo "demo: no demo/run.sh"; WITH=-1; WITHOUT=-1
fi
D=/verif/seeded/$P$SUF
mkdir -p $D
cp $BASE/$P.patch $D/patch.diff
rm -rf $D/demo; mkdir -p $D/demo
(cd demo 2>/dev/null && find . -type f \( -name '*.go' -o -name '*.sh' -o -name '*.txt' -o -name 'go.mod' -o -name '*.md' -o -name '*.yaml' \) -not -path './_*' -not -path './bin/*' -size -200k | while read f; do mkdir -p $D/demo/$(dirname $f); cp $f $D/demo/$f; done)
tail -15 $BASE/$P.demo.with.log > $D/demo/output_with_change.txt 2>/dev/null
tail -5 $BASE/$P.demo.without.log > $D/demo/output_without_change.txt 2>/dev/null
# run the checks against /repo with the change applied
cd /verif
# (SEEDREPO=<clean scratch worktree of /repo at HEAD>: apply the change there and check that tree - VERIF_REPO - while /repo is busy)
TREE=${SEEDREPO:-/repo}
[ "$TREE" = /repo ] || export VERIF_REPO=$TREE
git -C $TREE apply $BASE/$P.patch || { echo "patch does not apply to $TREE"; exit 2; }
RES=""
for c in $CHECKS; do
  timeout 1800 ./check $c --tier quick > $BASE/$P.check.$c.log 2>&1; E=$?
  echo "check $c: exit=$E  $(grep -c '^VIOLATION' $BASE/$P.check.$c.log) violation groups; $(grep -c '^DRIFT' $BASE/$P.check.$c.log) drift"
  grep -A1 '^VIOLATION' $BASE/$P.check.$c.log | grep clause= | head -4
  RES="$RES $c:$E"
done
git -C $TREE checkout -- .
git -C $TREE status --short | head -3
echo "RESULT $P demo_with=$WITH demo_without=$WITHOUT checks:$RES"
