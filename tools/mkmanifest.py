#!/usr/bin/env python3
"""Regenerates /verif/MANIFEST.json from the table below (single source of truth for what is claimed)."""
import json, sys
props = [json.loads(l) for l in open('/verif/properties.jsonl')]

NOTE = ("Trusted base: TLC 1.8 + CommunityModules Json; the concretiser and the projections of /verif/harness "
        "(abstract descriptor -> FileDescriptorProto, struct <-> GV, types.Object <-> TV); gogo/protobuf v1.3.2 struct layout; "
        "terraform-plugin-framework v0.10.0; the Go toolchain; the bounds of the model configuration. Verdicts come only from "
        "Contract clauses evaluated by TLC on states recorded from the real generated code; Impl-model mismatches are DRIFT (exit 0).")

claimed = {
 "C01": ("DESIGN.md §6 C01", "Family 'genmap': one real plugin run per shape (15 scalar types x singular / repeated / map / oneof, naming variants, every session shape incl. empty messages, embeds, oneofs, time / duration, casts); Trace.tla judges C01.exit, stdout (strict decoding + canonical re-encoding of the raw stdout), features, onefile, name, license, package, funcs (exact set + normalised signatures) and C01.compiles (go build of generated file + protoc-gen-gogo output) on the recorded run summary."),
 "C02": ("DESIGN.md §6 C02", "Family 'genmap': the real tfsdk.Schema returned by every GenSchema<T> is projected and compared by Trace.tla with the documented mapping (spec/Schema.tla SchemaOf over spec/Generator.tla: name_overrides by path / Message.field, json tag, snake_case; type table; flattening) - clauses C02.bijection, C02.type at every nesting level."),
 "C03": ("DESIGN.md §6 C03", "TLC enumerates every shape x struct value of family 'empty' (spec/MC_SessEmpty); each behaviour SetObj;NewEmpty;CopyTo is replayed in the real generated code and Trace.tla judges clauses C03.nopanic/noerror/present/typed/nounknown/convertible on the recorded states. Exhaustive within the shape / value bounds, not unbounded."),
 "C04": ("DESIGN.md §6 C04", "Same enumeration continued with FreshObj;CopyFrom; clause C04.roundtrip compares the normal forms (spec/Contract.tla NF) of the original and the read-back REAL struct, per field."),
 "C05": ("DESIGN.md §6 C05", "Family 'reset' (spec/MC_SessReset): TLC enumerates every conforming object (every leaf null / unknown / known zero / known non-zero, containers null / unknown / empty / filled, hand-built payloads under null / unknown) x prior target content; SetObj;LoadRaw;CopyFrom is replayed in the real code; clauses C05.noerror, C05.reset.*, C05.excluded_untouched per attribute and the pairwise clauses C05.history_free / C05.payload_free (trace validator remembers, per payload-free skeleton of the input, the first real result)."),
 "C06": ("DESIGN.md §6 C06", "Families 'badfrom' (every single corruption - deletion, wrong Go type, nil interface, nil Attrs / Elems - of conforming objects at any depth; thorough: pairs) and 'badto' (every attribute type removed at top level, nested object, list / map element type; thorough: pairs) enumerated by TLC, replayed in the real code; clauses nopanic, missing_once (set of reached missing attributes = set of diagnostics, by path), conversion, rest_copied / rest_written."),
 "C07": ("DESIGN.md §6 C07", "Families 'empty' (CopyTo with every active branch or none) and 'reset' (CopyFrom with every mix of known / null / unknown branch attributes x every prior holder state); clauses C07.to.inactive_null, C07.to.active_iff_nonzero, C07.from.single, C07.from.none at every nesting level."),
 "C08": ("DESIGN.md §6 C08", "Family 'echo': TLC enumerates the plans inside the property's quantifier (C08Plan); LoadPlan goes through the framework's own decoder; LoadPlan;FreshObj;CopyFrom;CopyTo;FreshObj;CopyFrom replayed in the real code; clauses C08.noerror, nounknown, known_unchanged, coll_shape, redecode."),
 "C09": ("DESIGN.md §6 C09", "Family 'refresh': all pairs (thorough: triples) of struct values per shape: SetObj v1;NewEmpty;CopyTo;SetObj v2;CopyTo;CopyTo replayed in the real code; clauses C09.noerror, nounknown, list.len, list.elems, map.keys, map.vals, scalar.follow, ptr.null_iff_nil, msg.nil_null, idempotent."),
 "C10": ("DESIGN.md §6 C10", "Family 'genflags': runs over flag lists (full-path and Message.field keys), validator / plan-modifier lists (tagged constructors), use_state_for_unknown_by_default, injected fields (root and nested paths) and seven comment patterns (multi-line, indented, CRLF, empty lines) on fields of root, nested, list-element, map-value, embedded and empty messages; the real tfsdk.Schema is compared attribute by attribute with spec/Schema.tla; thorough: full product of the flag key sets."),
 "C11": ("DESIGN.md §6 C11", "Families 'genaddr' (7 field-addressed options x 11 keys - full paths to singular / list-element / map-value / depth-3 / embedded-below-root occurrences and Message.field keys - on a descriptor whose messages occur at several paths; the real schema of every run is compared with the documented addressing rule of spec/Generator.tla) and 'genexcl' (base and 9 exclusion variants driven with the same vectors SetObj;NewEmpty;CopyTo;SetPrior;CopyFrom and compared line by line with the excluded occurrences masked: C11.excl.rest_same, C11.excl.to_absent; excluded Go fields keep their prior value)."),
 "C12": ("DESIGN.md §6 C12", "Family 'genselect': every non-empty types selection of a 4-message file x sort x {plain, extra message, extra dependency file}; C12.exact on the function set of each run, C12.text_independent: per-function source text hash equal across all runs of a group (trace validator's group memory)."),
 "C13": ("DESIGN.md §6 C13", "Family 'gensep': 19 shapes that need package qualification (named casts, enums, oneof wrappers, embedded / nested / list / map messages, time, duration) generated into the struct package (base) and into a separate target package (plain default_package_name; short name resolved through import_path_overrides); C13.compiles, C13.qualified_import, C13.package on the run, schema equality, and the same vectors replayed through all three variants compared line by line (C13.same_behaviour)."),
 "C14": ("DESIGN.md §6 C14", "Family 'gendet': a configuration with several entries in every option; the identical request is run repeatedly and with seeded permutations of YAML key / list-entry / +-list order (quick 18, thorough 70 per configuration); clause C14.same_sha on the raw response bytes. The specification states what may vary between runs (log output of Config.dump) and what may not (the response)."),
 "C15": ("DESIGN.md §6 C15", "Family 'gensort': reversal, rotations, swaps of the fields of a message with two oneof groups, an embed and a list, and all orders of the 4 messages (thorough: more); sort on: alternative renderings of one run must give a byte-identical file (C15.sorted_bytes); sort off: schemas equal (C15.unsorted_schema) and the same vectors replayed through base and permuted variants compared line by line, diagnostics as sets (C15.unsorted_behaviour)."),
 "C16": ("DESIGN.md §6 C16", "Family 'genconfig': one configuration delivered through every single-option channel assignment (CLI / both with contradicting YAML), all-CLI, all-both and mixed assignments (same request paths, generated file hash compared: C16.channel_equiv, C16.cli_wins); failure cases no types / unreadable / malformed YAML (C16.*_fails, *_nofile)."),
 "C17": ("DESIGN.md §6 C17", "Families 'custom', 'custombad', 'custombadto': custom-type fields by proto option and by configuration, singular and repeated, with and without a suffixes entry, with flags / validators / comments; the harness supplies per-suffix generic hooks that log every call with its arguments and result; Trace.tla judges C17.schema_call (attribute passed = what the field would otherwise get, result = schema entry), C17.from_call, C17.to_call, C17.to_stored, C17.missing_diag; a wrong suffix shows as generated code that does not compile (C17.generated_code_compiles)."),
 "C18": ("DESIGN.md §6 C18", "Family 'genwhole': a selected type with one unmappable field (time / duration without configured type, non-string map key) at top level, nested, under list / map / embed / oneof / depth 3, next to a healthy type; runs without the type, with it, and with the field excluded; clauses C18.none_for_poisoned, others_intact (function text hashes equal across the group), logged, exclude_restores (schema + CopyTo clauses on the restored type)."),
 "C19": ("DESIGN.md §6 C19", "Family 'boundary': every entry of the boundary table of the Go type (spec/Boundary.tla: 32/64-bit extremes incl. uint64 above MaxInt64, float32 denormal / max / 1+ulp, -0, invalid UTF-8 and NUL bytes, enum extremes, ns times with non-UTC zones, year 9999, negative / extreme durations) in every scalar position (singular, list element, map value, oneof branch, cast type) of all 15 proto scalar types, enum, time and duration, plus seeded random values of the same Go types (40 / 1500 behaviours per shape); round trip through the real code, clause C19.exact per field."),
 "C20": ("DESIGN.md §6 C20", "Same traces as C03; clauses C20.* state null <=> absent per attribute outside list/map elements at every depth, evaluated by TLC on the real post-state."),
}
technique = "explicit TLA+ spec (Session/CopyTo/CopyFrom/Contract), TLC exhaustive enumeration as test generator, replay in the real generated code, TLC trace validation of the recorded states"

checks = []
for pid, (ref, text) in sorted(claimed.items()):
    checks.append({
        "property_id": pid,
        "quick_cmd": "./check %s --tier quick" % pid,
        "thorough_cmd": "./check %s --tier thorough" % pid,
        "evidence_file": "/verif/evidence/%s.json" % pid,
        "replay_cmd_template": "./check %s --replay {path}" % pid,
        "engine": "tla-conformance",
        "level_claimed": {"category": "model_checking", "text": text, "design_ref": ref},
        "level_note": NOTE,
        "technique": technique,
    })
na = [{"property_id": p["id"], "reason": "check under construction in this session (DESIGN.md §6); not claimed until its machinery is committed and passes on the unchanged tree"}
      for p in props if p["id"] not in claimed]
m = {
 "version": 1,
 "setup_cmd": "./check setup",
 "hooks": {"guard": "verif", "enable": "go build -tags verif (no hook is needed: every abstract variable is observable at the public boundary; checks build /repo's working tree as is)",
           "baseline_off_cmd": "cd /repo && go test -vet=off -count=1 ./...", "source_commits": [], "add_only": True},
 "engines": [{"name": "tla-conformance", "path": "/verif", "serves_properties": sorted(claimed),
              "kind_free_text": "TLA+ specification (spec/) model-checked by TLC, bound to the real generator and generated code by replay of TLC-enumerated behaviours and TLC trace validation of the recorded executions (harness/)"}],
 "checks": checks,
 "not_applicable": na,
 "notes": "See DESIGN.md. known_findings.json lists genuine defects kept as findings and the ones repaired by fix: commits.",
}
json.dump(m, open('/verif/MANIFEST.json', 'w'), indent=1)
print("claimed:", sorted(claimed))
