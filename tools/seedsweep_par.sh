#!/bin/bash
# seedsweep_par.sh <workers> [ids...]: the regression run of seedsweep.sh, in parallel and without touching /repo: every worker
# owns a scratch worktree of /repo (/tmp/sweepw/<k>, removed at the end), applies one stored patch at a time there and runs
# the quick check of its property against that tree (VERIF_REPO; no evidence is written).  Expected for every id:
# VIOLATION + exit 1.  Development aid; the stored patches were each confirmed once through /repo itself (seedcheck.sh).
set -u
N=$1; shift
ROOT=${VERIF_SNAP:-/verif}
IDS=${@:-$(ls $ROOT/seeded)}
export GOFLAGS=-mod=mod GOPROXY=off GOSUMDB=off GOTOOLCHAIN=local VERIF_NO_EVIDENCE=1
mkdir -p /tmp/sweepw $ROOT/.work
LIST=$(mktemp /tmp/sweepw/list.XXXX); for id in $IDS; do echo $id; done > $LIST
worker() {
  k=$1; W=/tmp/sweepw/w$k
  git -C /repo worktree add -q --detach $W HEAD || exit 2
  i=0
  while read id; do
    i=$((i+1)); [ $(( (i-1) % N )) -eq $((k-1)) ] || continue
    P=${id%%-*}; SC=$(jq -r ".sweep_check // empty" $ROOT/seeded/$id/meta.json 2>/dev/null); [ -n "$SC" ] && P=$SC
    grep -q superseded_by_fix $ROOT/seeded/$id/meta.json 2>/dev/null && { echo "$id: superseded by a fix (skipped)"; continue; }
    git -C $W checkout -q -- . ; git -C $W clean -fdq
    if ! git -C $W apply $ROOT/seeded/$id/patch.diff 2>/dev/null; then echo "$id: patch does not apply"; continue; fi
    (cd $ROOT && VERIF_REPO=$W timeout 3600 ./check $P --tier quick > $ROOT/.work/par.$id.log 2>&1); E=$?
    V=$(grep -c '^VIOLATION' $ROOT/.work/par.$id.log)
    echo "$id: exit=$E violations=$V $(grep -A1 '^VIOLATION' $ROOT/.work/par.$id.log | grep -o 'clause=[^ ]*' | sort -u | head -2 | tr '\n' ' ')"
  done < $LIST
  git -C /repo worktree remove --force $W
}
for k in $(seq 1 $N); do worker $k & done
wait
git -C /repo worktree prune; rm -f $LIST; rmdir /tmp/sweepw 2>/dev/null
