#!/usr/bin/env python3
"""famtable.py [root]: per family the latest cached report of each tier (shapes, behaviours replayed, trace lines),
as a markdown table for DESIGN.md §4.4."""
import json, glob, os, sys
root = sys.argv[1] if len(sys.argv) > 1 else '/verif'
best = {}
for f in glob.glob(root + '/.cache/fam-*.json'):
    b = os.path.basename(f)[4:-5]
    parts = b.rsplit('-', 3)
    if len(parts) != 4:
        continue
    name, tier, seed, h = parts
    mt = os.path.getmtime(f)
    k = (name, tier)
    if k not in best or mt > best[k][0]:
        try:
            r = json.load(open(f))
        except Exception:
            continue
        best[k] = (mt, r.get('shapes'), r.get('behaviours'), r.get('trace_lines'))
names = sorted({k[0] for k in best})
print('| family | shapes quick / thorough | behaviours replayed quick / thorough | trace lines quick / thorough |')
print('|---|---|---|---|')
def g(n, t, i):
    v = best.get((n, t))
    return '–' if v is None or v[i] is None else f'{v[i]:,}'.replace(',', ' ')
for n in names:
    print(f'| {n} | {g(n,"quick",1)} / {g(n,"thorough",1)} | {g(n,"quick",2)} / {g(n,"thorough",2)} | {g(n,"quick",3)} / {g(n,"thorough",3)} |')
