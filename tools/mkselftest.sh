#!/bin/bash
# mkselftest.sh: re-records selftest/trace_ok.ndjson (the six trace lines of one behaviour of shape p.str.list on the
# real generated code) after a change of the trace format.  Run on the UNCHANGED /repo only.
set -u
cd /verif
[ -z "$(git -C /repo status --short)" ] || { echo "/repo is not clean"; exit 2; }
rm -rf .work/*; rm -f .cache/*-empty-quick-1-*
VERIF_KEEP=1 VERIF_NO_EVIDENCE=1 ./check family empty quick 1 >/dev/null 2>&1
W=$(ls -d .work/*/ | head -1)
python3 - "$W" <<'PY'
import json,sys
w=sys.argv[1]
lines=open(w+'trace-empty.ndjson').read().strip().split('\n')
def ok(b):
    if len(b)!=6: return False
    r=json.loads(b[0])
    if not r['id'].startswith('p.str.list#'): return False
    s=json.loads(b[1])
    f=s['obj']['f']
    return f['Str'].get('s')=='61' and f['Items'].get('t')=='seq' and len(f['Items']['e'])>0 and all(json.loads(x).get('panic','')=='' for x in b)
beh=[];out=None
for l in lines+['{"ev":"Reset","id":"end"}']:
    d=json.loads(l)
    if d['ev']=='Reset':
        if out is None and beh and ok(beh): out=beh
        beh=[l]
    else:
        beh.append(l)
assert out, "no suitable behaviour"
open('/verif/selftest/trace_ok.ndjson','w').write('\n'.join(out)+'\n')
print('recorded', json.loads(out[0])['id'])
PY
rm -rf .work/*
