#!/bin/bash
# benigncheck.sh <name> [check ids...]: soundness run.  /tmp/benign/<name> is a scratch worktree of /repo holding a
# behaviour-preserving refactoring (produced by a sub-agent that saw nothing of /verif).  The script verifies that it
# builds and passes the existing tests, stores the patch as /verif/selftest/benign/<name>.diff and runs the given quick
# checks (default: all twenty) against THAT tree (VERIF_REPO; /repo is not touched, no evidence is written).
# Expected: no VIOLATION line and exit 0 everywhere; DRIFT lines are allowed.
set -u
N=$1; shift
CHECKS=${@:-C01 C02 C03 C04 C05 C06 C07 C08 C09 C10 C11 C12 C13 C14 C15 C16 C17 C18 C19 C20}
W=${BENIGNBASE:-/tmp/benign}/$N
export GOFLAGS=-mod=mod GOPROXY=off GOSUMDB=off GOTOOLCHAIN=local
cd $W || exit 2
mkdir -p /verif/selftest/benign ${VERIF_SNAP:-/verif}/.work
git diff -- . ':(exclude).scratch' > /verif/selftest/benign/$N.diff
[ -s /verif/selftest/benign/$N.diff ] || { echo "no source change in $W"; exit 2; }
echo "== $N: $(grep -c '^[-+][^-+]' /verif/selftest/benign/$N.diff) changed lines in $(grep '^+++ ' /verif/selftest/benign/$N.diff | tr '\n' ' ')"
go build ./... >/dev/null 2>&1 && echo "build: ok" || { echo "build: FAIL"; exit 2; }
go test -vet=off -count=1 ./... >${VERIF_SNAP:-/verif}/.work/benign.$N.test.log 2>&1 && echo "tests: pass" || { echo "tests: FAIL"; tail -5 ${VERIF_SNAP:-/verif}/.work/benign.$N.test.log; exit 2; }
cd ${VERIF_SNAP:-/verif}
BAD=0
for c in $CHECKS; do
  VERIF_REPO=$W timeout 3600 ./check $c --tier quick > ${VERIF_SNAP:-/verif}/.work/benign.$N.$c.log 2>&1; E=$?
  V=$(grep -c '^VIOLATION' ${VERIF_SNAP:-/verif}/.work/benign.$N.$c.log); D=$(grep -c '^  drift' ${VERIF_SNAP:-/verif}/.work/benign.$N.$c.log)
  echo "check $c: exit=$E violations=$V drift-lines=$D  $(grep -h "^$c quick" ${VERIF_SNAP:-/verif}/.work/benign.$N.$c.log | sed 's/.*trace lines accepted, //')"
  if [ $E -ne 0 ] || [ $V -ne 0 ]; then BAD=1; grep -A1 '^VIOLATION' ${VERIF_SNAP:-/verif}/.work/benign.$N.$c.log | grep clause= | head -5; fi
done
echo "RESULT $N $( [ $BAD = 0 ] && echo 'no alarm' || echo 'ALARM' )"
