#!/bin/bash
# seedsweep.sh [ids...]: regression run over the stored seeded changes (/verif/seeded/<id>[-r2]/patch.diff).
# Each patch is applied to /repo (git apply), the quick check of its property is run and must report a VIOLATION
# (exit 1), and the patch is undone straight afterwards (git checkout).  Nothing else may use /repo meanwhile.
set -u
export VERIF_NO_EVIDENCE=1   # runs against a patched /repo say nothing about the unchanged tree
cd ${VERIF_SNAP:-/verif}
mkdir -p .work
IDS=${@:-$(ls seeded)}
[ -z "$(git -C /repo status --short)" ] || { echo "/repo is not clean"; exit 2; }
MISS=0
for id in $IDS; do
  P=${id%%-*}; SC=$(jq -r ".sweep_check // empty" seeded/$id/meta.json 2>/dev/null); [ -n "$SC" ] && P=$SC   # (a change that another property's check reports)
  grep -q superseded_by_fix seeded/$id/meta.json 2>/dev/null && { echo "$id: superseded by a fix (skipped)"; continue; }
  git -C /repo apply ${VERIF_SNAP:-/verif}/seeded/$id/patch.diff || { echo "$id: patch does not apply"; MISS=1; continue; }
  timeout 3600 ./check $P --tier quick > .work/seedsweep.$id.log 2>&1; E=$?
  git -C /repo checkout -- .
  V=$(grep -c '^VIOLATION' .work/seedsweep.$id.log)
  echo "$id: exit=$E violations=$V $(grep -A1 '^VIOLATION' .work/seedsweep.$id.log | grep -o 'clause=[^ ]*' | sort -u | head -3 | tr '\n' ' ')"
  [ $E -eq 1 ] && [ $V -gt 0 ] || MISS=1
done
[ -z "$(git -C /repo status --short)" ] || echo "WARNING: /repo is not clean"
echo "RESULT $( [ $MISS = 0 ] && echo 'all detected' || echo 'MISSED SOME' )"
