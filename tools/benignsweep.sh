#!/bin/bash
# benignsweep.sh [names...]: re-runs the stored behaviour-preserving refactorings (selftest/benign/<name>.diff) through
# all twenty quick checks: each diff is applied in a scratch worktree of /repo (removed afterwards), the checks run
# against that tree (VERIF_REPO), /repo itself is not touched.  Expected: "no alarm" for every name.
set -u
ROOT=${VERIF_SNAP:-/verif}
NAMES=${@:-$(ls $ROOT/selftest/benign | sed 's/\.diff$//')}
mkdir -p /tmp/benignsweep
for n in $NAMES; do
  W=/tmp/benignsweep/$n
  git -C /repo worktree add -q --detach $W HEAD || { echo "$n: cannot create worktree"; continue; }
  (cd $W && git apply $ROOT/selftest/benign/$n.diff) || { echo "$n: patch does not apply"; git -C /repo worktree remove --force $W; continue; }
  BENIGNBASE=/tmp/benignsweep VERIF_SNAP=$ROOT $ROOT/tools/benigncheck.sh $n 2>&1 | grep -v "exit=0 violations=0"
  git -C /repo worktree remove --force $W
done
git -C /repo worktree prune
rmdir /tmp/benignsweep 2>/dev/null
