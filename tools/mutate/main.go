// mutate: a small syntactic mutator for the generator's emitter files (development aid: survivors point at inputs the
// checks lack).  usage: mutate <file.go> <list|apply N> ; mutation sites are numbered in source order.
//
// operators: negate an if condition; swap && and ||; flip .True() / .False() of jennifer; swap the jennifer operators
// Op("==") and Op("!="); delete a statement that is a bare call chain on the emitter group (g.Xxx(...)...).
package main

import (
	"bytes"
	"fmt"
	"go/ast"
	"go/format"
	"go/parser"
	"go/token"
	"os"
	"strconv"
)

type site struct {
	desc  string
	apply func()
}

func main() {
	if len(os.Args) < 3 {
		fmt.Fprintln(os.Stderr, "usage: mutate <file.go> list | apply <n>")
		os.Exit(2)
	}
	file := os.Args[1]
	fset := token.NewFileSet()
	f, err := parser.ParseFile(fset, file, nil, parser.ParseComments)
	if err != nil {
		fmt.Fprintln(os.Stderr, err)
		os.Exit(2)
	}
	var sites []site
	pos := func(n ast.Node) string { return fset.Position(n.Pos()).String() }
	ast.Inspect(f, func(n ast.Node) bool {
		switch x := n.(type) {
		case *ast.IfStmt:
			c := x
			sites = append(sites, site{"negate if @" + pos(x), func() { c.Cond = &ast.UnaryExpr{Op: token.NOT, X: &ast.ParenExpr{X: c.Cond}} }})
		case *ast.BinaryExpr:
			b := x
			if b.Op == token.LAND || b.Op == token.LOR {
				sites = append(sites, site{"swap &&/|| @" + pos(x), func() {
					if b.Op == token.LAND {
						b.Op = token.LOR
					} else {
						b.Op = token.LAND
					}
				}})
			}
		case *ast.CallExpr:
			c := x
			if sel, ok := c.Fun.(*ast.SelectorExpr); ok {
				if (sel.Sel.Name == "True" || sel.Sel.Name == "False") && len(c.Args) == 0 {
					s := sel
					sites = append(sites, site{"flip " + s.Sel.Name + "() @" + pos(x), func() {
						if s.Sel.Name == "True" {
							s.Sel.Name = "False"
						} else {
							s.Sel.Name = "True"
						}
					}})
				}
				if sel.Sel.Name == "Op" && len(c.Args) == 1 {
					if lit, ok := c.Args[0].(*ast.BasicLit); ok && (lit.Value == `"=="` || lit.Value == `"!="`) {
						l := lit
						sites = append(sites, site{"swap Op(" + l.Value + ") @" + pos(x), func() {
							if l.Value == `"=="` {
								l.Value = `"!="`
							} else {
								l.Value = `"=="`
							}
						}})
					}
				}
			}
		case *ast.BlockStmt:
			blk := x
			for i, st := range blk.List {
				es, ok := st.(*ast.ExprStmt)
				if !ok {
					continue
				}
				if call, ok := es.X.(*ast.CallExpr); ok && rootIdent(call) == "g" {
					idx := i
					sites = append(sites, site{"delete statement @" + pos(st), func() {
						blk.List[idx] = &ast.EmptyStmt{}
					}})
				}
			}
		}
		return true
	})
	if os.Args[2] == "list" {
		for i, s := range sites {
			fmt.Printf("%d\t%s\n", i, s.desc)
		}
		return
	}
	n, err := strconv.Atoi(os.Args[3])
	if err != nil || n < 0 || n >= len(sites) {
		fmt.Fprintln(os.Stderr, "bad site number")
		os.Exit(2)
	}
	sites[n].apply()
	var buf bytes.Buffer
	if err := format.Node(&buf, fset, f); err != nil {
		fmt.Fprintln(os.Stderr, err)
		os.Exit(2)
	}
	if err := os.WriteFile(file, buf.Bytes(), 0o644); err != nil {
		fmt.Fprintln(os.Stderr, err)
		os.Exit(2)
	}
	fmt.Println(sites[n].desc)
}

// rootIdent: the identifier a call chain starts from (g.Id(..).Op(..) -> "g")
func rootIdent(e ast.Expr) string {
	for {
		switch x := e.(type) {
		case *ast.CallExpr:
			e = x.Fun
		case *ast.SelectorExpr:
			e = x.X
		case *ast.Ident:
			return x.Name
		default:
			return ""
		}
	}
}
