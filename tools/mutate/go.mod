module verif/tools/mutate

go 1.18
