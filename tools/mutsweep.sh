#!/bin/bash
# mutsweep.sh <file.go> <step> <families...>: syntactic mutants of one generator file (tools/mutate), every <step>-th
# mutation site.  Each mutant is made in ONE scratch worktree of /repo (/tmp/mut/w; /repo itself is never touched), must
# build and pass the existing tests, and is then run through the given families (`check family`, quick tier, from the
# snapshot named by VERIF_SNAP or /verif).  A mutant is KILLED when a family reports a violation group (clause | signature)
# that the unchanged tree does not report for that family, or when generation / compilation breaks; survivors point
# at inputs the families lack (or at equivalent mutants).  Development aid: no verdict, no evidence.
set -u
FILE=$1; STEP=$2; shift 2; FAMS="$@"
ROOT=${VERIF_SNAP:-/verif}
export GOFLAGS=-mod=mod GOPROXY=off GOSUMDB=off GOTOOLCHAIN=local VERIF_NO_EVIDENCE=1
OUT=$ROOT/.work/mut; mkdir -p $OUT /tmp/mut
(cd $ROOT/tools/mutate && go build -o $OUT/mutate .) || exit 2
W=/tmp/mut/w
[ -d $W ] || git -C /repo worktree add -q --detach $W HEAD
git -C $W checkout -q -- .
groups() { # violation groups of a family run: "count  clause | sig" lines -> "clause | sig"
  grep -E '^ +[0-9]+  ' "$1" | sed -E 's/^ +[0-9]+  //; s/   \(first:.*$//' | sort -u
}
cd $ROOT
for f in $FAMS; do
  if [ ! -s $OUT/base.$f.groups ]; then
    VERIF_REPO=$W timeout 1800 ./check family $f quick 1 > $OUT/base.$f.log 2>&1
    groups $OUT/base.$f.log > $OUT/base.$f.groups
    grep -c "compile failure\|gen failure" $OUT/base.$f.log > $OUT/base.$f.fail
  fi
done
N=$($OUT/mutate $W/$FILE list | wc -l)
for ((i=0; i<N; i+=STEP)); do
  git -C $W checkout -q -- .
  DESC=$($OUT/mutate $W/$FILE apply $i) || { echo "$FILE#$i: cannot apply"; continue; }
  if ! (cd $W && go build ./... >/dev/null 2>&1); then echo "$FILE#$i nobuild   $DESC"; continue; fi
  if ! (cd $W && go test -vet=off -count=1 ./... >/dev/null 2>&1); then echo "$FILE#$i testfail  $DESC"; continue; fi
  KILLED=""
  for f in $FAMS; do
    VERIF_REPO=$W timeout 1800 ./check family $f quick 1 > $OUT/m.log 2>&1; E=$?
    if [ $E -ne 0 ]; then KILLED="$f:exit$E($(grep -v conda $OUT/m.log | tail -1 | cut -c1-80))"; break; fi
    NEW=$(comm -13 $OUT/base.$f.groups <(groups $OUT/m.log) | head -1)
    FAIL=$(grep -c "compile failure\|gen failure" $OUT/m.log)
    if [ -n "$NEW" ]; then KILLED="$f:$(echo $NEW | cut -c1-90)"; break; fi
    if [ "$FAIL" != "$(cat $OUT/base.$f.fail)" ]; then KILLED="$f:compile/gen failure"; break; fi
    if grep -q "^drift " $OUT/m.log && ! grep -q "^drift " $OUT/base.$f.log; then DR=" (drift in $f)"; else DR=""; fi
  done
  if [ -n "$KILLED" ]; then echo "$FILE#$i killed    $DESC   <- $KILLED"; else echo "$FILE#$i SURVIVED  $DESC$DR"; fi
done
git -C $W checkout -q -- .
