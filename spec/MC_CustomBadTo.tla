---- MODULE MC_CustomBadTo ----
(* Family "custombadto": custom-type fields with the attribute type removed from the target.  Serves C17. *)
EXTENDS GenShapes, TLC, Json
CONSTANTS MCDeep, MCLong
VARIABLES sh, M, Mi, obj, tf, dg, pn, pc, hist, viol, aux
MCShapes == CustomShapes
MCProps == {"C17"}
MCScript == <<"SetObj", "LoadRaw", "CopyTo">>
ASSUME PrintT("SHAPES " \o ToJson(MCShapes))
INSTANCE Session WITH Shapes <- MCShapes, Script <- MCScript, Deep <- MCDeep, Props <- MCProps, ObjMode <- "all", RawMode <- "reduced", EmptyMode <- "plain"
====
