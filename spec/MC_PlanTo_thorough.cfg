SPECIFICATION Spec
CONSTANT MCDeep = TRUE
CONSTANT MCLong = TRUE
INVARIANT Emit
CHECK_DEADLOCK FALSE
