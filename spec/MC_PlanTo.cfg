SPECIFICATION Spec
CONSTANT MCDeep = FALSE
CONSTANT MCLong = FALSE
INVARIANT Emit
CHECK_DEADLOCK FALSE
