---- MODULE MC_GenDet ----
(* Family "gendet": a configuration with several entries in every option, the same request repeated and with permuted YAML / CLI entry orders.  Serves C14. *)
EXTENDS GenShapes, TLC, Json
CONSTANTS MCDeep, MCLong
VARIABLES sh, M, Mi, obj, tf, dg, pn, pc, hist, viol, aux
MCShapes == GenDetShapes(MCLong)
MCProps == {"C14"}
MCScript == <<>>
ASSUME PrintT("SHAPES " \o ToJson(MCShapes))
INSTANCE Session WITH Shapes <- MCShapes, Script <- MCScript, Deep <- MCDeep, Props <- MCProps, ObjMode <- "all", RawMode <- "plans", EmptyMode <- "plain"
====
