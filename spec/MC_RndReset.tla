---- MODULE MC_RndReset ----
(* Family "rnd-reset": SetPrior prior ; LoadRaw p ; CopyFrom.  Shapes: seeded random descriptors inside D (harness/cmd/check/randdesc.go), read from the file named by
   VERIF_SHAPES; values and histories are enumerated for them by the same Session machine. *)
EXTENDS Shapes, TLC, Json, IOUtils
CONSTANTS MCDeep, MCLong
VARIABLES sh, M, Mi, obj, tf, dg, pn, pc, hist, viol, aux
MCShapes == JsonDeserialize(IOEnv.VERIF_SHAPES)
MCProps == {"C05", "C07"}
MCScript == <<"SetPrior", "LoadRaw", "CopyFrom">>
ASSUME PrintT("SHAPES " \o ToJson(MCShapes))
INSTANCE Session WITH Shapes <- MCShapes, Script <- MCScript, Deep <- MCDeep, Props <- MCProps, ObjMode <- "all", RawMode <- "plans", EmptyMode <- "plain"
====
