---- MODULE MC_GenSep ----
(* Family "gensep": shapes needing package qualification, generated into the struct package (base) and into a separate target package (variants), driven with the same vectors and compared line by line.  Serves C13. *)
EXTENDS GenShapes, TLC, Json
CONSTANTS MCDeep, MCLong
VARIABLES sh, M, Mi, obj, tf, dg, pn, pc, hist, viol, aux
MCShapes == GenSepShapes
MCProps == {"C13"}
MCScript == <<"SetObj", "NewEmpty", "CopyTo", "FreshObj", "CopyFrom">>
ASSUME PrintT("SHAPES " \o ToJson(MCShapes))
INSTANCE Session WITH Shapes <- MCShapes, Script <- MCScript, Deep <- MCDeep, Props <- MCProps, ObjMode <- "all", RawMode <- "plans", EmptyMode <- "plain"
====
