---- MODULE MC_SessEmpty ----
(* Family "empty": SetObj v ; NewEmpty ; CopyTo ; FreshObj ; CopyFrom  for every shape and value.     *)
(* Serves C03 C04 C07(to) C20; Impl => Contract is evaluated on every transition (modelviol).        *)
EXTENDS Shapes, TLC, Json
CONSTANT MCDeep
VARIABLES sh, M, obj, tf, dg, pn, pc, hist, viol, aux
MCShapes == AllSessionShapes
MCScript == <<"SetObj", "NewEmpty", "CopyTo", "FreshObj", "CopyFrom">>
MCProps == {"C03", "C04", "C07", "C20"}
ASSUME PrintT("SHAPES " \o ToJson(MCShapes))
INSTANCE Session WITH Shapes <- MCShapes, Script <- MCScript, Deep <- MCDeep, Props <- MCProps
====
