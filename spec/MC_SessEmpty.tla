---- MODULE MC_SessEmpty ----
(* Family "empty": SetObj v ; NewEmpty ; CopyTo ; FreshObj ; CopyFrom for every shape and value.  Serves C03 C04 C07(to) C20. *)
EXTENDS Shapes, TLC, Json
CONSTANTS MCDeep, MCLong
VARIABLES sh, M, Mi, obj, tf, dg, pn, pc, hist, viol, aux
MCShapes == AllSessionShapes
MCScript == IF MCLong THEN <<"SetObj", "NewEmpty", "CopyTo", "FreshObj", "CopyFrom">> ELSE <<"SetObj", "NewEmpty", "CopyTo", "FreshObj", "CopyFrom">>
MCProps == {"C02", "C03", "C04", "C07", "C20"}
ASSUME PrintT("SHAPES " \o ToJson(MCShapes))
INSTANCE Session WITH Shapes <- MCShapes, Script <- MCScript, Deep <- MCDeep, Props <- MCProps, ObjMode <- "all", RawMode <- "plans", EmptyMode <- "flags"
====
