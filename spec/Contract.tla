------------------------------ MODULE Contract ------------------------------
(***************************************************************************)
(* The properties C01 .. C20 as predicates over OBSERVED states.  Each     *)
(* operator returns the set of failing clause instances                    *)
(*     [c |-> clause id, p |-> field path, sig |-> shape signature]        *)
(* so that one pass reports every violation and known findings can be      *)
(* matched precisely.  Clauses are written from the property statements    *)
(* (properties.jsonl) and their quantifiers, not from the code; the only   *)
(* thing they share with the Impl model is the built message M, i.e. the   *)
(* documented field -> attribute mapping.                                  *)
(***************************************************************************)
EXTENDS CopyFrom

Sig(F) == F.kind \o "/" \o (IF F.nullable THEN "ptr" ELSE "val") \o "/" \o (IF F.embed # "" THEN (IF F.pmixed THEN "embedmixed" ELSE "embed") ELSE "-")
          \o "/" \o (IF F.oneof # "" THEN "oneof" ELSE "-") \o "/" \o F.cls
          \o (IF F.placeholder THEN "/placeholder" ELSE "")
          \o (IF Len(F.gopath) > 1 THEN "/flat" ELSE "")
          \o (IF F.msg # NoMsg /\ SubOf(F).empty THEN "/emptymsg" ELSE "")

V(c, F, trig) == [c |-> c, p |-> F.path, sig |-> Sig(F) \o (IF trig = "" THEN "" ELSE " " \o trig)]
VG(c, p) == [c |-> c, p |-> p, sig |-> ""]

UNION2(f, S) == UNION {f[x] : x \in S}

HasError(dg) == \E i \in DOMAIN dg : dg[i].sev = "error"

\* the attribute value of F in a known object, or a marker
AttrOf(tv, F) == IF tv.k = "obj" /\ ~tv.attrsnil /\ F.attr \in DOMAIN tv.attrs THEN tv.attrs[F.attr] ELSE [k |-> "missing"]

\* the Go value of F's field with a nil optional-embed parent read as "absent" (zero / nil)
EffSrc(F, obj) ==
  LET s == SrcVal(F, obj)
  IN IF s.t # "panic" THEN s
     ELSE IF F.kind = "prim" /\ ~F.nullable THEN Sc(ZeroScalar(F.cls))
     ELSE IF F.kind = "obj" /\ ~F.nullable THEN SubOf(F).zero
     ELSE Nil

IsEmptyColl(s) == s.t = "nil" \/ (s.t = "seq" /\ Len(s.e) = 0) \/ (s.t = "map" /\ DOMAIN s.m = {})

ParentTrig(F, obj) == IF F.embed # "" /\ SrcVal(F, obj).t = "panic" THEN "parent=nil" ELSE ""

\* signature of a panic: the fields whose optional-embed parent is nil in the source value
RECURSIVE NilParentSigs(_, _, _)
NilParentSigs(M, obj, i) ==
  IF i > Len(M.fields) THEN ""
  ELSE (IF ParentTrig(M.fields[i], obj) # "" THEN Sig(M.fields[i]) \o ";" ELSE "") \o NilParentSigs(M, obj, i + 1)
\* ... at every depth: CopyTo walks the source, so the nested structs are the ones the source holds; CopyFrom builds nested
\* structs afresh (their embedded pointers are nil whatever the target held), fresh = TRUE below the root
RECURSIVE DeepNilParents(_, _, _)
DeepNilParents(M, st, fresh) ==
  LET Sub(F, v) == IF v.t \in {"ptr", "st"} THEN DeepNilParents(SubOf(F), Deref(v), fresh) \o NilParentSigs(SubOf(F), Deref(v), 1) ELSE ""
      Fresh(F) == DeepNilParents(SubOf(F), SubOf(F).zero, TRUE) \o NilParentSigs(SubOf(F), SubOf(F).zero, 1)
      RECURSIVE Elems(_, _, _)
      Elems(F, e, j) == IF j > Len(e) THEN "" ELSE Sub(F, e[j]) \o Elems(F, e, j + 1)
      RECURSIVE Keys(_, _, _)
      Keys(F, m, ks) == IF ks = <<>> THEN "" ELSE (IF Head(ks) \in DOMAIN m THEN Sub(F, m[Head(ks)]) ELSE "") \o Keys(F, m, Tail(ks))
      RECURSIVE Go(_)
      Go(i) == IF i > Len(M.fields) THEN ""
               ELSE LET F == M.fields[i]
                        v == IF st.t = "st" /\ F.msg # NoMsg THEN SrcVal(F, st) ELSE Nil
                    IN (IF F.msg = NoMsg \/ F.kind = "custom" THEN ""
                        ELSE IF fresh THEN Fresh(F)
                        ELSE IF F.kind = "obj" THEN Sub(F, v)
                        ELSE IF F.kind = "objlist" /\ v.t = "seq" THEN Elems(F, v.e, 1)
                        ELSE IF F.kind = "objmap" /\ v.t = "map" THEN Keys(F, v.m, <<"k1", "k2", "k3">>)
                        ELSE "") \o Go(i + 1)
  IN Go(1)
PanicSig(M, obj) == "panic nilparents=" \o NilParentSigs(M, obj, 1) \o DeepNilParents(M, obj, FALSE)
PanicSigFrom(M, obj) == "panic nilparents=" \o NilParentSigs(M, obj, 1) \o DeepNilParents(M, obj, TRUE)

---------------------------------------------------------------------------
\* C03  CopyTo into an empty schema-typed object is total and schema-conformant

\* every field-borne attribute present at every non-null object level (also inside elements)
RECURSIVE Absent(_, _)
Absent(M, tv) ==
  IF ~(tv.k = "obj" /\ Known(tv)) THEN {}
  ELSE UNION { LET F == M.fields[i]
                   a == AttrOf(tv, F)
               IN IF a.k = "missing" THEN {V("C03.present", F, "")}
                  ELSE IF F.kind = "obj" THEN Absent(SubOf(F), a)
                  ELSE IF F.kind = "objlist" /\ a.k = "list" /\ Known(a) THEN UNION {Absent(SubOf(F), a.elems[j]) : j \in DOMAIN a.elems}
                  ELSE IF F.kind = "objmap" /\ a.k = "map" /\ Known(a) THEN UNION {Absent(SubOf(F), a.mels[key]) : key \in DOMAIN a.mels}
                  ELSE {}
             : i \in DOMAIN M.fields }

\* ctx: [M, tt (type of the REAL schema), obj (source), tf (result), dg, pn, conv]
C03(ctx) ==
     (IF ctx.pn THEN {[c |-> "C03.nopanic", p |-> ctx.M.path, sig |-> PanicSig(ctx.M, ctx.obj)]} ELSE {})
  \cup (IF HasError(ctx.dg) THEN {VG("C03.noerror", ctx.M.path)} ELSE {})
  \cup (IF ctx.pn THEN {} ELSE
          Absent(ctx.M, ctx.tf)
          \* (a result still flagged null holds no attribute at all, whatever its Attrs map says)
          \cup (IF ctx.tf.k = "obj" /\ ctx.tf.null THEN {[VG("C03.present", ctx.M.path) EXCEPT !.sig = "the object is null"]} ELSE {})
          \cup (IF ~Conforms(ctx.tf, ctx.tt) THEN {VG("C03.typed", ctx.M.path)} ELSE {})
          \cup (IF ~NoUnknown(ctx.tf) THEN {VG("C03.nounknown", ctx.M.path)} ELSE {})
          \cup (IF ~ctx.conv THEN {VG("C03.convertible", ctx.M.path)} ELSE {}))

---------------------------------------------------------------------------
\* C20  on an empty target absence is null and presence non-null (attributes outside list / map elements)

RECURSIVE C20Sites(_, _, _)
C20Sites(M, obj, tv) ==
  IF ~(tv.k = "obj" /\ Known(tv)) THEN {}
  ELSE UNION {
    LET F == M.fields[i]
        a == AttrOf(tv, F)
        s == EffSrc(F, obj)
        trig == ParentTrig(F, obj)
        unsetOneof == F.oneof # "" /\ GetPath(obj, F.opath).t = "nil"
    IN IF ~HasFlags(a) \/ F.kind = "custom" THEN {}
       ELSE IF F.placeholder THEN (IF a.null THEN {} ELSE {V("C20.placeholder.null", F, "")})
       ELSE IF unsetOneof THEN (IF a.null THEN {} ELSE {V("C20.oneof.unset_null", F, "")})
       ELSE IF F.kind = "prim" /\ F.nullable THEN
            (IF a.null <=> (s.t = "nil") THEN {} ELSE {V("C20.ptr.null_iff_nil", F, trig)})
       ELSE IF F.kind = "prim" /\ F.cls \in {"time", "duration"} THEN {}   \* held by value: always rendered
       ELSE IF F.kind = "prim" THEN
            (IF a.null <=> (s.s \in ZeroSet(F.cls)) THEN {} ELSE {V("C20.scalar.null_iff_zero", F, trig)})
       ELSE IF F.kind \in {"primlist", "primmap", "objlist", "objmap"} THEN
            (IF a.null <=> IsEmptyColl(s) THEN {} ELSE {V("C20.coll.null_iff_empty", F, trig)})
       ELSE \* obj
            (IF F.nullable
             THEN (IF a.null <=> (s.t = "nil") THEN {} ELSE {V("C20.ptr.null_iff_nil", F, trig)})
             ELSE (IF ~a.null THEN {} ELSE {V("C20.msg.nonnull", F, trig)}))
            \cup (IF s.t # "nil" THEN C20Sites(SubOf(F), Deref(s), a) ELSE {})
    : i \in DOMAIN M.fields }

C20(ctx) == IF ctx.pn THEN {} ELSE C20Sites(ctx.M, ctx.obj, ctx.tf)

---------------------------------------------------------------------------
\* C07  oneof groups stay exclusive

PayloadZero(F, w) == IF F.kind = "obj" THEN w.t = "nil" ELSE w.s \in ZeroSet(F.cls)

\* CopyTo into an empty target, every depth, also inside elements
RECURSIVE C07To(_, _, _)
C07To(M, obj, tv) ==
  IF ~(tv.k = "obj" /\ Known(tv)) \/ obj.t # "st" THEN {}
  ELSE UNION {
    LET F == M.fields[i]
        a == AttrOf(tv, F)
        s == EffSrc(F, obj)
    IN (IF F.oneof # "" /\ HasFlags(a) /\ F.kind # "custom" THEN
          LET h == GetPath(obj, F.opath)
              active == h.t = "one" /\ h.b = F.name
          IN IF ~active THEN (IF a.null THEN {} ELSE {V("C07.to.inactive_null", F, "")})
             ELSE (IF a.null <=> PayloadZero(F, h.w) THEN {} ELSE {V("C07.to.active_iff_nonzero", F, "")})
        ELSE {})
       \cup (IF F.kind = "obj" /\ s.t \in {"ptr", "st"} THEN C07To(SubOf(F), Deref(s), a)
             ELSE IF F.kind = "objlist" /\ s.t = "seq" /\ a.k = "list" /\ Len(a.elems) = Len(s.e)
                  THEN UNION {IF s.e[j].t = "nil" THEN {} ELSE C07To(SubOf(F), Deref(s.e[j]), a.elems[j]) : j \in DOMAIN s.e}
             ELSE IF F.kind = "objmap" /\ s.t = "map" /\ a.k = "map"
                  THEN UNION {IF s.m[key].t = "nil" \/ key \notin DOMAIN a.mels THEN {} ELSE C07To(SubOf(F), Deref(s.m[key]), a.mels[key]) : key \in DOMAIN s.m}
             ELSE {})
    : i \in DOMAIN M.fields }

\* CopyFrom: exactly one known branch => that branch with that value; none => nil whatever was there
RECURSIVE C07From(_, _, _)
C07From(M, tv, obj) ==
  IF ~(tv.k = "obj" /\ Known(tv)) \/ obj.t # "st" THEN {}
  ELSE
  (UNION {
    LET h == M.ohold[g]
        branches == {i \in DOMAIN M.fields : M.fields[i].opath = h}
        wellformed == \A i \in branches : HasFlags(AttrOf(tv, M.fields[i])) /\ TypedAs(M.fields[i], AttrOf(tv, M.fields[i]))
        known == {i \in branches : Known(AttrOf(tv, M.fields[i]))}
        hv == GetPath(obj, h)
    IN IF ~wellformed \/ branches = {} THEN {}
       ELSE IF known = {} THEN (IF hv.t = "nil" THEN {} ELSE {V("C07.from.none", M.fields[CHOOSE i \in branches : TRUE], "")})
       ELSE IF Cardinality(known) = 1 THEN
          LET F == M.fields[CHOOSE i \in known : TRUE]
              a == AttrOf(tv, F)
          IN IF hv.t = "one" /\ hv.b = F.name /\ (F.kind = "prim" => hv.w = Sc(a.v)) /\ (F.kind = "obj" => hv.w.t = "ptr")
             THEN {} ELSE {V("C07.from.single", F, "")}
       ELSE {}
    : g \in DOMAIN M.ohold })
  \cup UNION {
    LET F == M.fields[i]
        a == AttrOf(tv, F)
        s == EffSrc(F, obj)
    IN IF F.kind = "obj" /\ s.t \in {"ptr", "st"} /\ HasFlags(a) THEN C07From(SubOf(F), a, Deref(s)) ELSE {}
    : i \in DOMAIN M.fields }

---------------------------------------------------------------------------
\* C04 / C19  round trip up to the documented normal form

ScalarZeros == {"0", "-0", "", "false"}

RECURSIVE NFg(_)
NFg(g) ==
  CASE g.t = "s" -> IF g.s = "-0" THEN Sc("0") ELSE g
    [] g.t = "ptr" -> Ptr(NFg(g.p))
    [] g.t = "st" -> St([n \in DOMAIN g.f |-> NFg(g.f[n])])
    [] g.t = "seq" -> IF Len(g.e) = 0 THEN Nil ELSE SeqV([i \in DOMAIN g.e |-> NFg(g.e[i])])
    [] g.t = "map" -> IF DOMAIN g.m = {} THEN Nil ELSE MapV([key \in DOMAIN g.m |-> NFg(g.m[key])])
    [] g.t = "one" -> IF g.w.t = "nil" \/ (g.w.t = "s" /\ g.w.s \in ScalarZeros) THEN Nil ELSE One(g.b, NFg(g.w))
    [] OTHER -> g

RECURSIVE NF(_, _)
RECURSIVE NFFields(_, _, _, _)
RECURSIVE NFEmbeds(_, _, _)

NFDeep(F, val) ==
  LET S == SubOf(F)
      one(x) == IF x.t = "ptr" THEN Ptr(NF(S, x.p)) ELSE IF x.t = "st" THEN NF(S, x) ELSE x
  IN CASE F.kind = "obj" -> one(val)
       [] F.kind = "objlist" /\ val.t = "seq" -> IF Len(val.e) = 0 THEN Nil ELSE SeqV([i \in DOMAIN val.e |-> one(val.e[i])])
       [] F.kind = "objmap" /\ val.t = "map" -> IF DOMAIN val.m = {} THEN Nil ELSE MapV([key \in DOMAIN val.m |-> one(val.m[key])])
       [] OTHER -> NFg(val)

\* message-typed parts (where nested embed rules may apply) are normalised through their built message
NFFields(M, i, orig, g) ==
  IF i > Len(M.fields) THEN g
  ELSE LET F == M.fields[i]
           deep == F.kind \in {"obj", "objlist", "objmap"} /\ F.oneof = ""
           val == GetPath(orig, F.gopath)
       IN NFFields(M, i + 1, orig, IF deep /\ val.t # "panic" THEN SetPath(g, F.gopath, NFDeep(F, val)) ELSE g)

\* a nullable embedded message whose fields are all zero is identified with nil
NFEmbeds(M, i, g) ==
  IF i > Len(M.fields) THEN g
  ELSE LET F == M.fields[i]
           pp == Front(F.gopath)
           par == IF F.embed = "" THEN Nil ELSE GetPath(g, pp)
       IN NFEmbeds(M, i + 1, IF par.t = "ptr" /\ par.p = NFg(F.pzero) THEN SetPath(g, pp, Nil) ELSE g)

NF(M, gv) == IF gv.t # "st" THEN NFg(gv) ELSE NFEmbeds(M, 1, NFFields(M, 1, gv, NFg(gv)))

\* custom-type fields are converted by the user's hooks, not by the generator: masked
RECURSIVE MaskCustomGo(_, _, _)
MaskCustomGo(M, i, g) ==
  IF i > Len(M.fields) \/ g.t # "st" THEN g
  ELSE LET F == M.fields[i]
           settable == F.oneof = "" /\ CanSet(g, F.gopath)
           val == IF settable THEN GetPath(g, F.gopath) ELSE Nil
       IN MaskCustomGo(M, i + 1,
            IF F.kind = "custom" /\ settable THEN SetPath(g, F.gopath, Nil)
            ELSE IF F.kind = "obj" /\ settable /\ val.t = "ptr" THEN SetPath(g, F.gopath, Ptr(MaskCustomGo(SubOf(F), 1, val.p)))
            ELSE IF F.kind = "obj" /\ settable /\ val.t = "st" THEN SetPath(g, F.gopath, MaskCustomGo(SubOf(F), 1, val))
            ELSE g)

\* per-unit differences between two normal forms of the same message
RtDiff(c, M, orig, a, b) ==
  LET fieldDiffs == UNION {
        LET F == M.fields[i]
            gp == IF F.oneof # "" THEN F.opath ELSE F.gopath
        IN IF F.placeholder \/ GetPath(a, gp) = GetPath(b, gp) THEN {} ELSE {V(c, F, ParentTrig(F, orig))}
        : i \in DOMAIN M.fields }
  IN IF a = b THEN {} ELSE IF fieldDiffs = {} THEN {VG(c, M.path)} ELSE fieldDiffs

\* ctx: [M, orig (value copied into the empty object), back (value read back into a fresh struct)]
C04(ctx) ==
  RtDiff("C04.roundtrip", ctx.M, ctx.orig, NF(ctx.M, MaskCustomGo(ctx.M, 1, ctx.orig)), NF(ctx.M, MaskCustomGo(ctx.M, 1, ctx.back)))

C19(ctx) ==
  RtDiff("C19.exact", ctx.M, ctx.orig, NF(ctx.M, MaskCustomGo(ctx.M, 1, ctx.orig)), NF(ctx.M, MaskCustomGo(ctx.M, 1, ctx.back)))


---------------------------------------------------------------------------
\* The value a Terraform value denotes (contract-side reading of "is copied"): known scalars carry their
\* value, null / unknown denote zero or nil, containers element-wise.  Independent of prior content and
\* of payloads under null / unknown by construction.
RECURSIVE Dec(_, _)
DecPrim(F, a) == IF Known(a) THEN (IF F.nullable THEN Ptr(Sc(a.v)) ELSE Sc(a.v))
                 ELSE (IF F.nullable THEN Nil ELSE Sc(ZeroScalar(F.cls)))
DecElem(F, e) ==
  IF F.kind \in {"primlist", "primmap"} THEN DecPrim(F, e)
  ELSE IF Known(e) THEN (IF F.nullable THEN Ptr(Dec(SubOf(F), e)) ELSE Dec(SubOf(F), e))
  ELSE (IF F.nullable THEN Nil ELSE SubOf(F).zero)
DecField(F, a) ==
  CASE F.kind = "prim" -> DecPrim(F, a)
    [] F.kind = "obj" -> IF Known(a) THEN (IF F.nullable THEN Ptr(Dec(SubOf(F), a)) ELSE Dec(SubOf(F), a))
                         ELSE (IF F.nullable THEN Nil ELSE SubOf(F).zero)
    [] F.kind \in {"primlist", "objlist"} -> IF Known(a) THEN SeqV([i \in DOMAIN a.elems |-> DecElem(F, a.elems[i])]) ELSE Nil
    [] F.kind \in {"primmap", "objmap"} -> IF Known(a) THEN MapV([key \in DOMAIN a.mels |-> DecElem(F, a.mels[key])]) ELSE Nil
    [] OTHER -> Nil

RECURSIVE DecFields(_, _, _, _)
DecFields(M, i, tv, g) ==
  IF i > Len(M.fields) THEN g
  ELSE LET F == M.fields[i]
           a == AttrOf(tv, F)
           skip == F.placeholder \/ F.kind = "custom" \/ ~HasFlags(a)
       IN DecFields(M, i + 1, tv,
            IF skip THEN g
            ELSE IF F.oneof # "" THEN (IF Known(a) THEN SetPath(g, F.opath, One(F.name, DecField(F, a))) ELSE g)
            ELSE IF F.embed # "" THEN
                 (IF Known(a) \/ GetPath(g, Front(F.gopath)).t = "ptr"
                  THEN SetPath(IF GetPath(g, Front(F.gopath)).t = "nil" THEN SetPath(g, Front(F.gopath), Ptr(F.pzero)) ELSE g,
                               F.gopath, DecField(F, a))
                  ELSE g)
            ELSE SetPath(g, F.gopath, DecField(F, a)))
Dec(M, tv) == DecFields(M, 1, tv, M.zero)

\* is tv (of field F) well formed: every level has the right Go kind and all attributes present
RECURSIVE WellFormedObj(_, _)
WellFormedElem(F, e) ==
  IF F.kind \in {"primlist", "primmap"} THEN e.k = "prim" /\ e.ty = F.tfty ELSE WellFormedObj(SubOf(F), e)
WellFormedField(F, a) ==
  CASE F.kind = "prim" -> a.k = "prim" /\ a.ty = F.tfty
    [] F.kind = "custom" -> HasFlags(a)
    [] F.kind = "obj" -> WellFormedObj(SubOf(F), a)
    [] F.kind \in {"primlist", "objlist"} -> a.k = "list" /\ (Known(a) => \A i \in DOMAIN a.elems : WellFormedElem(F, a.elems[i]))
    [] OTHER -> a.k = "map" /\ (Known(a) => \A key \in DOMAIN a.mels : WellFormedElem(F, a.mels[key]))
WellFormedObj(M, tv) ==
  /\ tv.k = "obj"
  /\ (Known(tv) => \A i \in DOMAIN M.fields :
        LET a == AttrOf(tv, M.fields[i]) IN (M.fields[i].placeholder /\ M.empty) \/ (a.k # "missing" /\ WellFormedField(M.fields[i], a)))

\* at most one branch of every oneof group is known, at every level reached through known values
RECURSIVE OneBranch(_, _)
OneBranch(M, tv) ==
  IF ~(tv.k = "obj" /\ Known(tv)) THEN TRUE
  ELSE /\ \A g \in DOMAIN M.ohold :
            Cardinality({i \in DOMAIN M.fields : M.fields[i].opath = M.ohold[g] /\ HasFlags(AttrOf(tv, M.fields[i])) /\ ~AttrOf(tv, M.fields[i]).null}) <= 1
       /\ \A i \in DOMAIN M.fields :
            LET F == M.fields[i]
                a == AttrOf(tv, F)
            IN CASE F.kind = "obj" /\ a.k = "obj" -> OneBranch(SubOf(F), a)
                 [] F.kind = "objlist" /\ a.k = "list" /\ Known(a) -> \A j \in DOMAIN a.elems : OneBranch(SubOf(F), a.elems[j])
                 [] F.kind = "objmap" /\ a.k = "map" /\ Known(a) -> \A key \in DOMAIN a.mels : OneBranch(SubOf(F), a.mels[key])
                 [] OTHER -> TRUE

\* unmapped (excluded) Go fields: at the top level of the struct and, through the holders of messages embedded by value
\* (whose fields are flattened into this message and which the converter never replaces as a whole), at any depth
IsPrefixOf(p, q) == Len(p) <= Len(q) /\ SubSeq(q, 1, Len(p)) = p
CoveredPath(M, p) == (\E i \in DOMAIN M.fields : IsPrefixOf(p, M.fields[i].gopath)) \/ (\E k \in DOMAIN M.ohold : IsPrefixOf(p, M.ohold[k]))
EmbedHolderPath(M, p) == \E i \in DOMAIN M.fields : Len(M.fields[i].gopath) > Len(p) /\ IsPrefixOf(p, M.fields[i].gopath)
RECURSIVE MaskU(_, _, _)
MaskU(M, st, prefix) ==
  St([n \in DOMAIN st.f |-> LET p == prefix \o <<n>>
                            IN IF ~CoveredPath(M, p) THEN Nil
                               ELSE IF EmbedHolderPath(M, p) /\ st.f[n].t = "st" THEN MaskU(M, st.f[n], p) ELSE st.f[n]])
MaskUnmapped(M, obj) == MaskU(M, obj, <<>>)
\* the unmapped paths whose value differs between two states of the same struct
RECURSIVE UnmappedDiff(_, _, _, _)
UnmappedDiff(M, pre, post, prefix) ==
  UNION {LET p == prefix \o <<n>>
         IN IF ~CoveredPath(M, p) THEN (IF pre.f[n] # post.f[n] THEN {p} ELSE {})
            ELSE IF EmbedHolderPath(M, p) /\ pre.f[n].t = "st" /\ post.f[n].t = "st" THEN UnmappedDiff(M, pre.f[n], post.f[n], p)
            ELSE {} : n \in DOMAIN post.f}
RECURSIVE DotJoin(_)
DotJoin(p) == IF p = <<>> THEN "" ELSE "." \o Head(p) \o DotJoin(Tail(p))

---------------------------------------------------------------------------
\* C05  null and unknown reset the target, whatever it held; excluded fields untouched

RECURSIVE C05Sites(_, _, _, _)
PrimElemZero(F, x) == IF F.nullable THEN x.t = "nil" ELSE x.t = "s" /\ x.s \in ZeroSet(F.cls)
C05Elems(F, a, s) ==
  \* known list / map: a null / unknown ELEMENT yields the zero value (nil pointer, zero struct), whatever its
  \* neighbours hold; known message elements are entered
  IF F.kind = "primlist" /\ a.k = "list" /\ Known(a) /\ s.t = "seq" /\ Len(s.e) = Len(a.elems) THEN
     UNION { IF a.elems[j].k = "prim" /\ ~Known(a.elems[j]) /\ ~PrimElemZero(F, s.e[j]) THEN {V("C05.reset.element", F, "")} ELSE {} : j \in DOMAIN a.elems }
  ELSE IF F.kind = "primmap" /\ a.k = "map" /\ Known(a) /\ s.t = "map" THEN
     UNION { IF a.mels[key].k = "prim" /\ ~Known(a.mels[key]) /\ key \in DOMAIN s.m /\ ~PrimElemZero(F, s.m[key]) THEN {V("C05.reset.element", F, "")} ELSE {} : key \in DOMAIN a.mels }
  ELSE IF F.kind = "objlist" /\ a.k = "list" /\ Known(a) /\ s.t = "seq" /\ Len(s.e) = Len(a.elems) THEN
     UNION { LET e == a.elems[j] x == s.e[j]
             IN IF e.k # "obj" THEN {}
                ELSE IF ~Known(e) THEN (IF (F.nullable /\ x.t = "nil") \/ (~F.nullable /\ NFg(x) = NFg(SubOf(F).zero)) THEN {} ELSE {V("C05.reset.element", F, "")})
                ELSE IF x.t = "nil" THEN {} ELSE C05Sites(SubOf(F), e, Deref(x), "")
             : j \in DOMAIN a.elems }
  ELSE IF F.kind = "objmap" /\ a.k = "map" /\ Known(a) /\ s.t = "map" THEN
     UNION { LET e == a.mels[key]
             IN IF e.k # "obj" \/ key \notin DOMAIN s.m THEN {}
                ELSE IF ~Known(e) THEN (IF (F.nullable /\ s.m[key].t = "nil") \/ (~F.nullable /\ NFg(s.m[key]) = NFg(SubOf(F).zero)) THEN {} ELSE {V("C05.reset.element", F, "")})
                ELSE IF s.m[key].t = "nil" THEN {} ELSE C05Sites(SubOf(F), e, Deref(s.m[key]), "")
             : key \in DOMAIN a.mels }
  ELSE {}

C05Sites(M, tv, obj, trig0) ==
  IF ~(tv.k = "obj" /\ Known(tv)) \/ obj.t # "st" THEN {}
  ELSE UNION {
    LET F == M.fields[i]
        a == AttrOf(tv, F)
        raw == SrcVal(F, obj)
        s == EffSrc(F, obj)
        h == IF F.oneof # "" THEN GetPath(obj, F.opath) ELSE Nil
        trig == trig0
    IN IF ~HasFlags(a) \/ F.kind = "custom" \/ F.placeholder THEN {}
       ELSE IF ~Known(a) THEN
          (IF F.oneof # "" THEN (IF h.t = "one" /\ h.b = F.name THEN {V("C05.reset.oneof", F, trig)} ELSE {})
           ELSE IF F.embed # "" THEN
                (IF raw.t = "panic" THEN {}
                 ELSE IF F.kind = "prim" /\ ~F.nullable THEN (IF s.s \in ZeroSet(F.cls) THEN {} ELSE {V("C05.reset.embed", F, trig)})
                 ELSE IF F.kind = "obj" /\ ~F.nullable THEN (IF NFg(s) = NFg(SubOf(F).zero) THEN {} ELSE {V("C05.reset.embed", F, trig)})
                 ELSE (IF IsEmptyColl(s) \/ s.t = "nil" THEN {} ELSE {V("C05.reset.embed", F, trig)}))
           ELSE IF F.kind = "prim" /\ F.nullable THEN (IF s.t = "nil" THEN {} ELSE {V("C05.reset.pointer", F, trig)})
           ELSE IF F.kind = "prim" THEN (IF s.s \in ZeroSet(F.cls) THEN {} ELSE {V("C05.reset.scalar", F, trig)})
           ELSE IF F.kind \in {"primlist", "objlist"} THEN (IF IsEmptyColl(s) THEN {} ELSE {V("C05.reset.list", F, trig)})
           ELSE IF F.kind \in {"primmap", "objmap"} THEN (IF IsEmptyColl(s) THEN {} ELSE {V("C05.reset.map", F, trig)})
           ELSE IF F.nullable THEN (IF s.t = "nil" THEN {} ELSE {V("C05.reset.object", F, trig)})
           ELSE (IF NF(SubOf(F), s) = NF(SubOf(F), SubOf(F).zero) THEN {} ELSE {V("C05.reset.object", F, trig)}))
       ELSE IF F.kind = "obj" THEN
          (IF F.oneof # "" THEN (IF h.t = "one" /\ h.b = F.name /\ h.w.t = "ptr" THEN C05Sites(SubOf(F), a, h.w.p, trig) ELSE {})
           ELSE IF s.t \in {"ptr", "st"} THEN C05Sites(SubOf(F), a, Deref(s), trig) ELSE {})
       ELSE C05Elems(F, a, s)
    : i \in DOMAIN M.fields }

\* ctx: [M, tf (input), pre (target before), obj (target after), dg, pn]
C05(ctx) ==
     (IF ctx.pn THEN {[c |-> "C05.noerror", p |-> ctx.M.path, sig |-> PanicSigFrom(ctx.M, ctx.pre)]} ELSE {})
  \cup (IF ~ctx.pn /\ HasError(ctx.dg) THEN {VG("C05.noerror", ctx.M.path)} ELSE {})
  \cup (IF ctx.pn THEN {} ELSE C05Sites(ctx.M, ctx.tf, ctx.obj, ""))
  \cup (IF ctx.pn THEN {} ELSE
         {VG("C05.excluded_untouched", ctx.M.path \o DotJoin(p)) : p \in UnmappedDiff(ctx.M, ctx.pre, ctx.obj, <<>>)})

\* a conforming input in the sense of C05: every level well formed (payloads under null / unknown included
\* as far as they are present)
C05Input(M, tv) == WellFormedObj(M, tv)

\* the payload-free skeleton of a Terraform value: two inputs with equal skeletons may differ only in
\* payloads under null / unknown
RECURSIVE Skeleton(_)
Skeleton(tv) ==
  CASE tv.k = "prim" -> IF Known(tv) THEN tv ELSE [tv EXCEPT !.v = ""]
    [] tv.k = "obj" -> IF Known(tv) THEN [tv EXCEPT !.attrs = [n \in DOMAIN tv.attrs |-> Skeleton(tv.attrs[n])]]
                       ELSE [tv EXCEPT !.attrs = EmptyFn, !.attrsnil = FALSE]
    [] tv.k = "list" -> IF Known(tv) THEN [tv EXCEPT !.elems = [i \in DOMAIN tv.elems |-> Skeleton(tv.elems[i])]]
                        ELSE [tv EXCEPT !.elems = <<>>, !.elemsnil = FALSE]
    [] tv.k = "map" -> IF Known(tv) THEN [tv EXCEPT !.mels = [key \in DOMAIN tv.mels |-> Skeleton(tv.mels[key])]]
                       ELSE [tv EXCEPT !.mels = EmptyFn, !.elemsnil = FALSE]
    [] OTHER -> tv

---------------------------------------------------------------------------
\* C06  malformed input becomes diagnostics, never a panic

\* does the message (at any depth) contain fields promoted from an embedded message?
RECURSIVE HasFlat(_)
HasFlat(M) == \E i \in DOMAIN M.fields : Len(M.fields[i].gopath) > 1 \/ (M.fields[i].msg # NoMsg /\ HasFlat(SubOf(M.fields[i])))
Unexpected(c, M, pth) == [c |-> c, p |-> pth, sig |-> "unexpected diagnostic" \o (IF HasFlat(M) THEN " (message has /flat fields)" ELSE "")]

\* an error diagnostic of the given kind for the given path.  Kinds are recognised by the CURRENT wording of the shared
\* diagnostics code; a diagnostic worded otherwise (kind "other") still counts when it names the path: the properties
\* ask for "an error diagnostic that names the field's path", not for a text.
IsDiag(d, kind, path) ==
  \/ d.kind = kind /\ d.path = path
  \/ d.kind = "other" /\ \E j \in DOMAIN d.paths : d.paths[j] = path
HasDiag(dg, kind, path) == \E i \in DOMAIN dg : dg[i].sev = "error" /\ IsDiag(dg[i], kind, path)
CountDiag(dg, kind, path) == Cardinality({i \in DOMAIN dg : IsDiag(dg[i], kind, path)})

\* fields whose attribute is missing at a level the converter reaches
RECURSIVE MissingFrom(_, _)
MissingFrom(M, tv) ==
  IF ~(tv.k = "obj") THEN {}
  ELSE UNION {
    LET F == M.fields[i]
        a == IF tv.attrsnil THEN [k |-> "missing"] ELSE AttrOf(tv, F)
    IN IF F.placeholder THEN {}
       ELSE IF a.k = "missing" THEN {F}
       ELSE IF ~TypedAs(F, a) \/ ~Known(a) \/ F.kind = "custom" THEN {}
       ELSE IF F.kind = "obj" THEN MissingFrom(SubOf(F), a)
       ELSE IF F.kind = "objlist" THEN UNION {IF a.elems[j].k = "obj" /\ Known(a.elems[j]) THEN MissingFrom(SubOf(F), a.elems[j]) ELSE {} : j \in DOMAIN a.elems}
       ELSE IF F.kind = "objmap" THEN UNION {IF a.mels[key].k = "obj" /\ Known(a.mels[key]) THEN MissingFrom(SubOf(F), a.mels[key]) ELSE {} : key \in DOMAIN a.mels}
       ELSE {}
    : i \in DOMAIN M.fields }

\* fields with a reached attribute or element of the wrong Go type
RECURSIVE BadFrom(_, _)
BadFrom(M, tv) ==
  IF ~(tv.k = "obj") \/ tv.attrsnil THEN {}
  ELSE UNION {
    LET F == M.fields[i]
        a == AttrOf(tv, F)
    IN IF F.placeholder \/ a.k = "missing" \/ F.kind = "custom" THEN {}
       ELSE IF ~TypedAs(F, a) THEN {F}
       ELSE IF ~Known(a) \/ F.kind = "prim" THEN {}
       ELSE IF F.kind = "obj" THEN BadFrom(SubOf(F), a)
       ELSE IF F.kind = "primlist" THEN (IF \E j \in DOMAIN a.elems : ~(a.elems[j].k = "prim" /\ a.elems[j].ty = F.tfty) THEN {F} ELSE {})
       ELSE IF F.kind = "primmap" THEN (IF \E key \in DOMAIN a.mels : ~(a.mels[key].k = "prim" /\ a.mels[key].ty = F.tfty) THEN {F} ELSE {})
       ELSE IF F.kind = "objlist" THEN
            (IF \E j \in DOMAIN a.elems : a.elems[j].k # "obj" THEN {F} ELSE {})
            \cup UNION {IF a.elems[j].k = "obj" /\ Known(a.elems[j]) THEN BadFrom(SubOf(F), a.elems[j]) ELSE {} : j \in DOMAIN a.elems}
       ELSE (IF \E key \in DOMAIN a.mels : a.mels[key].k # "obj" THEN {F} ELSE {})
            \cup UNION {IF a.mels[key].k = "obj" /\ Known(a.mels[key]) THEN BadFrom(SubOf(F), a.mels[key]) ELSE {} : key \in DOMAIN a.mels}
    : i \in DOMAIN M.fields }

\* ctx: [M, tf (input), pre, obj (result), dg, pn]
C06From(ctx) ==
  LET M == ctx.M
      miss == MissingFrom(M, ctx.tf)
      bad == BadFrom(M, ctx.tf)
      missPaths == {F.path : F \in miss}
      gotMissing == {ctx.dg[i].path : i \in {j \in DOMAIN ctx.dg : ctx.dg[j].kind = "readMissing"}}
      \* top-level fields whose whole attribute is well formed are still copied
      copied == UNION {
        LET F == M.fields[i]
            a == AttrOf(ctx.tf, F)
            gp == F.gopath
            okAttr == ctx.tf.k = "obj" /\ ~ctx.tf.attrsnil /\ a.k # "missing" /\ WellFormedField(F, a) /\ OneBranch(M, ctx.tf)
            plain == F.oneof = "" /\ F.embed = "" /\ ~F.placeholder /\ F.kind # "custom"
        IN IF okAttr /\ plain /\ CanSet(ctx.obj, gp) /\
              NFg(GetPath(NF(M, ctx.obj), gp)) # NFg(GetPath(NF(M, SetPath(M.zero, gp, DecField(F, a))), gp))
           THEN {V("C06.from.rest_copied", F, "")} ELSE {}
        : i \in DOMAIN M.fields }
  IN IF ctx.pn THEN {[c |-> "C06.from.nopanic", p |-> M.path, sig |-> PanicSigFrom(M, ctx.pre)]}
     ELSE {V("C06.from.missing_once", F, "absent") : F \in {G \in miss : ~HasDiag(ctx.dg, "readMissing", G.path)}}
       \cup {V("C06.from.missing_once", F, "duplicate") : F \in {G \in miss : CountDiag(ctx.dg, "readMissing", G.path) > 1}}
       \cup {Unexpected("C06.from.missing_once", M, pth) : pth \in gotMissing \ missPaths}
       \cup {V("C06.from.conversion", F, "") : F \in {G \in bad : ~HasDiag(ctx.dg, "readConversion", G.path)}}
       \cup copied

\* CopyTo with attribute types removed from the target: fields whose attribute type is missing at a level
\* the converter reaches with the given source value
RECURSIVE MissingTo(_, _, _)
MissingTo(M, obj, at) ==
  UNION {
    LET F == M.fields[i]
        s == EffSrc(F, obj)
    IN IF F.attr \notin DOMAIN at THEN {F}
       ELSE LET t == at[F.attr]
            IN IF F.kind = "obj" /\ t.k = "obj" /\ s.t \in {"ptr", "st"} THEN MissingTo(SubOf(F), Deref(s), t.at)
               ELSE IF F.kind = "objlist" /\ t.k = "list" /\ t.et.k = "obj" /\ s.t = "seq"
                    THEN UNION {IF s.e[j].t = "nil" THEN {} ELSE MissingTo(SubOf(F), Deref(s.e[j]), t.et.at) : j \in DOMAIN s.e}
               ELSE IF F.kind = "objmap" /\ t.k = "map" /\ t.et.k = "obj" /\ s.t = "map"
                    THEN UNION {IF s.m[key].t = "nil" THEN {} ELSE MissingTo(SubOf(F), Deref(s.m[key]), t.et.at) : key \in DOMAIN s.m}
               ELSE {}
    : i \in DOMAIN M.fields }

\* ctx: [M, obj (source), pre (target before), tf (target after), dg, pn]
C06To(ctx) ==
  LET M == ctx.M
      miss == MissingTo(M, ctx.obj, ctx.pre.at)
      missPaths == {F.path : F \in miss}
      gotMissing == {ctx.dg[i].path : i \in {j \in DOMAIN ctx.dg : ctx.dg[j].kind = "writeMissing"}}
      written == UNION {
        LET F == M.fields[i]
        IN IF F.attr \in DOMAIN ctx.pre.at /\ AttrOf(ctx.tf, F).k = "missing" THEN {V("C06.to.rest_written", F, "")} ELSE {}
        : i \in DOMAIN M.fields }
  IN IF ctx.pn THEN {[c |-> "C06.to.nopanic", p |-> M.path, sig |-> PanicSig(M, ctx.obj)]}
     ELSE {V("C06.to.missing_once", F, "absent") : F \in {G \in miss : ~HasDiag(ctx.dg, "writeMissing", G.path)}}
       \cup {V("C06.to.missing_once", F, "duplicate") : F \in {G \in miss : CountDiag(ctx.dg, "writeMissing", G.path) > 1}}
       \cup {Unexpected("C06.to.missing_once", M, pth) : pth \in gotMissing \ missPaths}
       \cup written

---------------------------------------------------------------------------
\* C08  apply echo

\* nothing unknown at any depth, attributes the converters never touch (injected) aside
RECURSIVE UnknownIn(_, _)
UnknownIn(M, tv) ==
  IF tv.k # "obj" THEN {}
  ELSE (IF tv.unk THEN {VG("C08.nounknown", M.path)} ELSE {})
    \cup UNION {
      LET F == M.fields[i]
          a == AttrOf(tv, F)
      IN IF ~HasFlags(a) \/ F.kind = "custom" THEN {}
         ELSE IF a.unk THEN {V("C08.nounknown", F, "")}
         ELSE IF F.kind = "prim" \/ a.k # WantKind(F) THEN {}
         ELSE IF F.kind = "obj" THEN UnknownIn(SubOf(F), a)
         ELSE IF F.kind \in {"primlist"} THEN (IF \E j \in DOMAIN a.elems : HasFlags(a.elems[j]) /\ a.elems[j].unk THEN {V("C08.nounknown", F, "element")} ELSE {})
         ELSE IF F.kind \in {"primmap"} THEN (IF \E key \in DOMAIN a.mels : HasFlags(a.mels[key]) /\ a.mels[key].unk THEN {V("C08.nounknown", F, "element")} ELSE {})
         ELSE IF F.kind = "objlist" THEN UNION {UnknownIn(SubOf(F), a.elems[j]) : j \in DOMAIN a.elems}
         ELSE UNION {UnknownIn(SubOf(F), a.mels[key]) : key \in DOMAIN a.mels}
      : i \in DOMAIN M.fields }

\* the plan is inside the quantifier of C08: at most one branch per group that is not null, no NULL list or map
\* elements (unknown ones are inside: "any mix of null, unknown and known at every attribute and nesting level"),
\* at every level
RECURSIVE C08Plan(_, _)
C08Plan(M, tv) ==
  /\ WellFormedObj(M, tv)
  /\ OneBranch(M, tv)
  /\ (Known(tv) => \A i \in DOMAIN M.fields :
        LET F == M.fields[i]
            a == AttrOf(tv, F)
        IN CASE F.kind = "obj" -> C08Plan(SubOf(F), a)
             [] F.kind = "primlist" /\ Known(a) -> \A j \in DOMAIN a.elems : ~a.elems[j].null
             [] F.kind = "primmap" /\ Known(a) -> \A key \in DOMAIN a.mels : ~a.mels[key].null
             [] F.kind = "objlist" /\ Known(a) -> \A j \in DOMAIN a.elems : ~a.elems[j].null /\ (Known(a.elems[j]) => C08Plan(SubOf(F), a.elems[j]))
             [] F.kind = "objmap" /\ Known(a) -> \A key \in DOMAIN a.mels : ~a.mels[key].null /\ (Known(a.mels[key]) => C08Plan(SubOf(F), a.mels[key]))
             [] OTHER -> TRUE)

\* attributes outside list / map elements: known in the plan (null or not) => unchanged; known collections
\* keep null-ness, length, key set
RECURSIVE C08Echo(_, _, _)
C08Echo(M, p, q) ==
  IF ~(p.k = "obj" /\ q.k = "obj") \/ p.unk THEN {}
  ELSE UNION {
    LET F == M.fields[i]
        a == AttrOf(p, F)
        b == AttrOf(q, F)
    IN IF ~HasFlags(a) \/ F.kind = "custom" \/ a.unk \/ p.null THEN {}
       ELSE IF ~HasFlags(b) THEN {V("C08.known_unchanged", F, "attribute lost")}
       ELSE IF F.kind = "prim" THEN
            (IF a.null # b.null THEN {V("C08.known_unchanged", F, IF a.null THEN "null->value" ELSE "value->null")}
             ELSE IF ~a.null /\ a.v # b.v THEN {V("C08.known_unchanged", F, "value")} ELSE {})
       ELSE IF F.kind \in {"primlist", "objlist"} THEN
            (IF a.null # b.null THEN {V("C08.coll_shape", F, IF a.null THEN "null->value" ELSE "value->null")}
             ELSE IF ~a.null /\ Len(a.elems) # Len(b.elems) THEN {V("C08.coll_shape", F, "length")} ELSE {})
       ELSE IF F.kind \in {"primmap", "objmap"} THEN
            (IF a.null # b.null THEN {V("C08.coll_shape", F, IF a.null THEN "null->value" ELSE "value->null")}
             ELSE IF ~a.null /\ DOMAIN a.mels # DOMAIN b.mels THEN {V("C08.coll_shape", F, "keys")} ELSE {})
       ELSE \* obj
            (IF a.null # b.null THEN {V("C08.known_unchanged", F, IF a.null THEN "null->value" ELSE "value->null")} ELSE {})
            \cup (IF ~a.null THEN C08Echo(SubOf(F), a, b) ELSE {})
    : i \in DOMAIN M.fields }

\* ctx: [M, obj (the struct decoded from the plan), plan, back (plan object after CopyTo), dg1, dg2, pn]
C08To(ctx) ==
     (IF ctx.pn THEN {[c |-> "C08.noerror", p |-> ctx.M.path, sig |-> PanicSig(ctx.M, ctx.obj)]} ELSE {})
  \cup (IF ~ctx.pn /\ (HasError(ctx.dg1) \/ HasError(ctx.dg2)) THEN {VG("C08.noerror", ctx.M.path)} ELSE {})
  \cup (IF ctx.pn THEN {} ELSE UnknownIn(ctx.M, ctx.back) \cup C08Echo(ctx.M, ctx.plan, ctx.back))

\* ctx: [M, s (struct decoded from the plan), s2 (struct decoded from the echoed plan), dg, pn]
C08Redecode(ctx) ==
  IF ctx.pn THEN {[c |-> "C08.noerror", p |-> ctx.M.path, sig |-> PanicSigFrom(ctx.M, ctx.M.zero)]}
  ELSE (IF HasError(ctx.dg) THEN {VG("C08.noerror", ctx.M.path)} ELSE {})
       \cup RtDiff("C08.redecode", ctx.M, ctx.s, NF(ctx.M, MaskCustomGo(ctx.M, 1, ctx.s)), NF(ctx.M, MaskCustomGo(ctx.M, 1, ctx.s2)))

---------------------------------------------------------------------------
\* C09  refresh: the object follows the new source; idempotent

\* does Terraform value a render Go value s (of field F / its elements)?  null is allowed for zero / nil.
RECURSIVE Follows(_, _, _, _)
PrimFollows(F, a, s) ==
  /\ a.k = "prim"
  /\ IF F.nullable THEN (a.null <=> s.t = "nil") /\ (s.t = "ptr" => a.v = s.p.s)
     ELSE (a.null => s.s \in ZeroSet(F.cls)) /\ (~a.null => a.v = s.s \/ (a.v \in ZeroSet(F.cls) /\ s.s \in ZeroSet(F.cls)))
ElemFollows(F, e, x) ==
  IF F.kind \in {"primlist", "primmap"} THEN PrimFollows(F, e, x)
  \* list and map elements are built anew by every call: inside them every scalar renders its source (strict)
  ELSE e.k = "obj" /\ (IF x.t = "nil" THEN e.null ELSE ~e.null /\ Follows(SubOf(F), e, Deref(x), TRUE) = {})

\* failing sites; tv = object after the call, obj = source struct; strict: by-value scalars are judged here too
\* (otherwise against the earlier state, by ScalarFollow: the property speaks about attributes that were non-null)
Follows(M, tv, obj, strict) ==
  IF ~(tv.k = "obj") \/ obj.t # "st" THEN {}
  ELSE UNION {
    LET F == M.fields[i]
        a == AttrOf(tv, F)
        s == EffSrc(F, obj)
    IN IF ~HasFlags(a) \/ F.kind = "custom" \/ F.placeholder THEN {}
       ELSE IF F.kind = "prim" /\ F.nullable THEN (IF a.null <=> s.t = "nil" THEN {} ELSE {V("C09.ptr.null_iff_nil", F, "")})
                                                 \cup (IF s.t = "ptr" /\ ~a.null /\ a.v # s.p.s THEN {V("C09.scalar.follow", F, "")} ELSE {})
       ELSE IF F.kind = "prim" THEN (IF strict /\ ~PrimFollows(F, a, s) THEN {V("C09.scalar.follow", F, "strict")} ELSE {})
       ELSE IF F.kind \in {"primlist", "objlist"} THEN
            LET n == IF s.t = "seq" THEN Len(s.e) ELSE 0
            IN IF Len(a.elems) # n THEN {V("C09.list.len", F, IF s.t = "nil" THEN "src=nil" ELSE "")}
               ELSE IF \E j \in 1..n : ~ElemFollows(F, a.elems[j], s.e[j]) THEN {V("C09.list.elems", F, "")} ELSE {}
       ELSE IF F.kind \in {"primmap", "objmap"} THEN
            LET keys == IF s.t = "map" THEN DOMAIN s.m ELSE {}
            IN IF DOMAIN a.mels # keys THEN {V("C09.map.keys", F, IF s.t = "nil" THEN "src=nil" ELSE "")}
               ELSE IF \E key \in keys : ~ElemFollows(F, a.mels[key], s.m[key]) THEN {V("C09.map.vals", F, "")} ELSE {}
       ELSE \* obj
            IF s.t = "nil" THEN (IF a.null THEN {} ELSE {V("C09.msg.nil_null", F, "")})
            ELSE Follows(SubOf(F), a, Deref(s), strict)
    : i \in DOMAIN M.fields }

\* every scalar attribute that was non-null before the call takes the source's value
RECURSIVE ScalarFollow(_, _, _, _)
ScalarFollow(M, before, after, obj) ==
  IF ~(before.k = "obj" /\ after.k = "obj") \/ obj.t # "st" THEN {}
  ELSE UNION {
    LET F == M.fields[i]
        a0 == AttrOf(before, F)
        a == AttrOf(after, F)
        s == EffSrc(F, obj)
    IN IF ~HasFlags(a0) \/ ~HasFlags(a) \/ F.kind = "custom" \/ F.placeholder THEN {}
       ELSE IF F.kind = "prim" /\ ~F.nullable THEN
            \* a null attribute denotes the zero value: it follows a source that holds zero (or is absent)
            (IF ~a0.null /\ ~PrimFollows(F, a, s) THEN {V("C09.scalar.follow", F, "")} ELSE {})
       ELSE IF F.kind = "obj" /\ s.t \in {"ptr", "st"} /\ ~before.null THEN ScalarFollow(SubOf(F), a0, a, Deref(s))
       ELSE {}
    : i \in DOMAIN M.fields }

\* ctx: [M, obj (new source), before, after, dg, pn]
C09(ctx) ==
     (IF ctx.pn THEN {[c |-> "C09.noerror", p |-> ctx.M.path, sig |-> PanicSig(ctx.M, ctx.obj)]} ELSE {})
  \cup (IF ~ctx.pn /\ HasError(ctx.dg) THEN {VG("C09.noerror", ctx.M.path)} ELSE {})
  \cup (IF ctx.pn THEN {} ELSE
          (IF NoUnknown(ctx.after) THEN {} ELSE {VG("C09.nounknown", ctx.M.path)})
          \cup Follows(ctx.M, ctx.after, ctx.obj, FALSE)
          \cup ScalarFollow(ctx.M, ctx.before, ctx.after, ctx.obj))

C09Idem(ctx) == IF ctx.pn \/ ctx.after = ctx.before THEN {} ELSE {VG("C09.idempotent", ctx.M.path)}

---------------------------------------------------------------------------
\* C02 (converter half)  schema, CopyTo and CopyFrom agree on the field <-> attribute mapping: "writing a distinctive
\* value into one field changes exactly that attribute, and reading it back changes exactly that field".  Stated
\* per field instead of per pair of runs: after CopyTo into an empty object EVERY attribute renders the value of its
\* own field (so two values that differ in one field differ in exactly that attribute), and after CopyFrom into a
\* fresh struct EVERY field holds what its own attribute denotes (Dec).
C02To(M, obj, tf) == {[x EXCEPT !.sig = x.c \o " " \o @, !.c = "C02.to.exactly"] : x \in Follows(M, tf, obj, TRUE)}
C02From(M, tf, back) ==
  IF ~WellFormedObj(M, tf) THEN {}
  ELSE RtDiff("C02.from.exactly", M, back, NF(M, MaskCustomGo(M, 1, Dec(M, tf))), NF(M, MaskCustomGo(M, 1, back)))

---------------------------------------------------------------------------
\* C17  custom-type fields are delegated to the user's three hooks (top-level fields of the root message;
\* the harness's hooks log every call with its arguments)

CustomIdx(M) == {i \in DOMAIN M.fields : M.fields[i].kind = "custom"}
CallsOf(hooks, kind, suffix) == {i \in DOMAIN hooks : hooks[i].hook = kind /\ hooks[i].suffix = suffix}
\* does the message contain custom-type fields, also below singular nested messages?
RECURSIVE HasCustom(_)
HasCustom(M) == \E i \in DOMAIN M.fields : M.fields[i].kind = "custom" \/ (M.fields[i].kind = "obj" /\ HasCustom(SubOf(M.fields[i])))

\* M: built message, obj: source struct, pre / tf: target object before / after (at this level)
RECURSIVE C17ToAt(_, _, _, _, _, _)
C17ToAt(M, obj, pre, tf, hooks, dg) ==
  IF pre.k # "obj" \/ tf.k # "obj" \/ obj.t # "st" THEN {} ELSE
  UNION {
    LET F == M.fields[i]
        calls == CallsOf(hooks, "CopyTo", F.suffix)
        typed == F.attr \in DOMAIN pre.at
        cur == IF ~pre.attrsnil /\ F.attr \in DOMAIN pre.attrs THEN pre.attrs[F.attr] ELSE VNilIf
        src == SrcVal(F, obj)
    IN IF F.kind = "obj" /\ F.oneof = "" THEN
          \* a singular nested message: its custom fields are delegated as well (when the source reaches it)
          (IF src.t \in {"ptr", "st"} /\ typed /\ pre.at[F.attr].k = "obj" /\ AttrOf(tf, F).k = "obj"
           THEN C17ToAt(SubOf(F), Deref(src), IF cur.k = "obj" THEN cur ELSE EmptyObject(pre.at[F.attr].at), AttrOf(tf, F), hooks, dg)
           ELSE {})
       ELSE IF F.kind # "custom" THEN {}
       ELSE IF ~typed THEN (IF calls # {} THEN {V("C17.to_call", F, "called without attribute type")} ELSE {})
                      \cup (IF HasDiag(dg, "writeMissing", F.path) THEN {} ELSE {V("C17.missing_diag", F, "write")})
       ELSE IF Cardinality(calls) # 1 THEN {V("C17.to_call", F, "not called exactly once")}
       ELSE LET h == hooks[CHOOSE k \in calls : TRUE]
            IN (IF h.field # src THEN {V("C17.to_call", F, "field value")} ELSE {})
               \cup (IF h.type # pre.at[F.attr] THEN {V("C17.to_call", F, "attribute type")} ELSE {})
               \cup (IF h.cur # cur THEN {V("C17.to_call", F, "current value")} ELSE {})
               \cup (IF AttrOf(tf, F) # h.ret THEN {V("C17.to_stored", F, "")} ELSE {})
    : i \in DOMAIN M.fields }

\* ctx: [M, obj (source), pre (target before), tf (target after), hooks, dg, pn]
C17To(ctx) == IF ctx.pn THEN {} ELSE C17ToAt(ctx.M, ctx.obj, ctx.pre, ctx.tf, ctx.hooks, ctx.dg)

RECURSIVE C17FromAt(_, _, _, _)
C17FromAt(M, tf, hooks, dg) ==
  IF tf.k # "obj" THEN {} ELSE
  UNION {
    LET F == M.fields[i]
        calls == CallsOf(hooks, "CopyFrom", F.suffix)
        present == ~tf.attrsnil /\ F.attr \in DOMAIN tf.attrs
        a == IF present THEN tf.attrs[F.attr] ELSE VNilIf
    IN IF F.kind = "obj" /\ F.oneof = "" THEN (IF present /\ a.k = "obj" /\ Known(a) THEN C17FromAt(SubOf(F), a, hooks, dg) ELSE {})
       ELSE IF F.kind # "custom" THEN {}
       ELSE (IF Cardinality(calls) # 1 THEN {V("C17.from_call", F, "not called exactly once")}
             ELSE LET h == hooks[CHOOSE k \in calls : TRUE]
                  IN (IF h.value # a THEN {V("C17.from_call", F, "attribute value")} ELSE {})
                     \cup (IF ~h.isptr THEN {V("C17.from_call", F, "not a pointer to the field")} ELSE {}))
            \cup (IF ~present /\ ~HasDiag(dg, "readMissing", F.path) THEN {V("C17.missing_diag", F, "read")} ELSE {})
    : i \in DOMAIN M.fields }

\* ctx: [M, tf (input), hooks, dg, pn]
C17From(ctx) == IF ctx.pn THEN {} ELSE C17FromAt(ctx.M, ctx.tf, ctx.hooks, ctx.dg)
=============================================================================
