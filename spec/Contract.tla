------------------------------ MODULE Contract ------------------------------
(***************************************************************************)
(* The properties C01 .. C20 as predicates over OBSERVED states.  Each     *)
(* operator returns the set of failing clause instances                    *)
(*     [c |-> clause id, p |-> field path, sig |-> shape signature]        *)
(* so that one pass reports every violation and known findings can be      *)
(* matched precisely.  Clauses are written from the property statements    *)
(* (properties.jsonl) and their quantifiers, not from the code; the only   *)
(* thing they share with the Impl model is the built message M, i.e. the   *)
(* documented field -> attribute mapping.                                  *)
(***************************************************************************)
EXTENDS CopyFrom

Sig(F) == F.kind \o "/" \o (IF F.nullable THEN "ptr" ELSE "val") \o "/" \o (IF F.embed # "" THEN "embed" ELSE "-")
          \o "/" \o (IF F.oneof # "" THEN "oneof" ELSE "-") \o "/" \o F.cls
          \o (IF F.placeholder THEN "/placeholder" ELSE "")
          \o (IF F.msg # NoMsg /\ SubOf(F).empty THEN "/emptymsg" ELSE "")

V(c, F, trig) == [c |-> c, p |-> F.path, sig |-> Sig(F) \o (IF trig = "" THEN "" ELSE " " \o trig)]
VG(c, p) == [c |-> c, p |-> p, sig |-> ""]

UNION2(f, S) == UNION {f[x] : x \in S}

HasError(dg) == \E i \in DOMAIN dg : dg[i].sev = "error"

\* the attribute value of F in a known object, or a marker
AttrOf(tv, F) == IF tv.k = "obj" /\ ~tv.attrsnil /\ F.attr \in DOMAIN tv.attrs THEN tv.attrs[F.attr] ELSE [k |-> "missing"]

\* the Go value of F's field with a nil optional-embed parent read as "absent" (zero / nil)
EffSrc(F, obj) ==
  LET s == SrcVal(F, obj)
  IN IF s.t # "panic" THEN s
     ELSE IF F.kind = "prim" /\ ~F.nullable THEN Sc(ZeroScalar(F.cls))
     ELSE IF F.kind = "obj" /\ ~F.nullable THEN SubOf(F).zero
     ELSE Nil

IsEmptyColl(s) == s.t = "nil" \/ (s.t = "seq" /\ Len(s.e) = 0) \/ (s.t = "map" /\ DOMAIN s.m = {})

ParentTrig(F, obj) == IF F.embed # "" /\ SrcVal(F, obj).t = "panic" THEN "parent=nil" ELSE ""

\* signature of a panic: the fields whose optional-embed parent is nil in the source value
RECURSIVE NilParentSigs(_, _, _)
NilParentSigs(M, obj, i) ==
  IF i > Len(M.fields) THEN ""
  ELSE (IF ParentTrig(M.fields[i], obj) # "" THEN Sig(M.fields[i]) \o ";" ELSE "") \o NilParentSigs(M, obj, i + 1)
PanicSig(M, obj) == "panic nilparents=" \o NilParentSigs(M, obj, 1)

---------------------------------------------------------------------------
\* C03  CopyTo into an empty schema-typed object is total and schema-conformant

\* every field-borne attribute present at every non-null object level (also inside elements)
RECURSIVE Absent(_, _)
Absent(M, tv) ==
  IF ~(tv.k = "obj" /\ Known(tv)) THEN {}
  ELSE UNION { LET F == M.fields[i]
                   a == AttrOf(tv, F)
               IN IF a.k = "missing" THEN {V("C03.present", F, "")}
                  ELSE IF F.kind = "obj" THEN Absent(SubOf(F), a)
                  ELSE IF F.kind = "objlist" /\ a.k = "list" /\ Known(a) THEN UNION {Absent(SubOf(F), a.elems[j]) : j \in DOMAIN a.elems}
                  ELSE IF F.kind = "objmap" /\ a.k = "map" /\ Known(a) THEN UNION {Absent(SubOf(F), a.mels[key]) : key \in DOMAIN a.mels}
                  ELSE {}
             : i \in DOMAIN M.fields }

\* ctx: [M, tt (type of the REAL schema), obj (source), tf (result), dg, pn, conv]
C03(ctx) ==
     (IF ctx.pn THEN {[c |-> "C03.nopanic", p |-> ctx.M.path, sig |-> PanicSig(ctx.M, ctx.obj)]} ELSE {})
  \cup (IF HasError(ctx.dg) THEN {VG("C03.noerror", ctx.M.path)} ELSE {})
  \cup (IF ctx.pn THEN {} ELSE
          Absent(ctx.M, ctx.tf)
          \cup (IF ~Conforms(ctx.tf, ctx.tt) THEN {VG("C03.typed", ctx.M.path)} ELSE {})
          \cup (IF ~NoUnknown(ctx.tf) THEN {VG("C03.nounknown", ctx.M.path)} ELSE {})
          \cup (IF ~ctx.conv THEN {VG("C03.convertible", ctx.M.path)} ELSE {}))

---------------------------------------------------------------------------
\* C20  on an empty target absence is null and presence non-null (attributes outside list / map elements)

RECURSIVE C20Sites(_, _, _)
C20Sites(M, obj, tv) ==
  IF ~(tv.k = "obj" /\ Known(tv)) THEN {}
  ELSE UNION {
    LET F == M.fields[i]
        a == AttrOf(tv, F)
        s == EffSrc(F, obj)
        trig == ParentTrig(F, obj)
        unsetOneof == F.oneof # "" /\ GetPath(obj, <<F.oneof>>).t = "nil"
    IN IF ~HasFlags(a) \/ F.kind = "custom" THEN {}
       ELSE IF F.placeholder THEN (IF a.null THEN {} ELSE {V("C20.placeholder.null", F, "")})
       ELSE IF unsetOneof THEN (IF a.null THEN {} ELSE {V("C20.oneof.unset_null", F, "")})
       ELSE IF F.kind = "prim" /\ F.nullable THEN
            (IF a.null <=> (s.t = "nil") THEN {} ELSE {V("C20.ptr.null_iff_nil", F, trig)})
       ELSE IF F.kind = "prim" /\ F.cls \in {"time", "duration"} THEN {}   \* held by value: always rendered
       ELSE IF F.kind = "prim" THEN
            (IF a.null <=> (s.s \in ZeroSet(F.cls)) THEN {} ELSE {V("C20.scalar.null_iff_zero", F, trig)})
       ELSE IF F.kind \in {"primlist", "primmap", "objlist", "objmap"} THEN
            (IF a.null <=> IsEmptyColl(s) THEN {} ELSE {V("C20.coll.null_iff_empty", F, trig)})
       ELSE \* obj
            (IF F.nullable
             THEN (IF a.null <=> (s.t = "nil") THEN {} ELSE {V("C20.ptr.null_iff_nil", F, trig)})
             ELSE (IF ~a.null THEN {} ELSE {V("C20.msg.nonnull", F, trig)}))
            \cup (IF s.t # "nil" THEN C20Sites(SubOf(F), Deref(s), a) ELSE {})
    : i \in DOMAIN M.fields }

C20(ctx) == IF ctx.pn THEN {} ELSE C20Sites(ctx.M, ctx.obj, ctx.tf)

---------------------------------------------------------------------------
\* C07  oneof groups stay exclusive

PayloadZero(F, w) == IF F.kind = "obj" THEN w.t = "nil" ELSE w.s \in ZeroSet(F.cls)

\* CopyTo into an empty target, every depth, also inside elements
RECURSIVE C07To(_, _, _)
C07To(M, obj, tv) ==
  IF ~(tv.k = "obj" /\ Known(tv)) \/ obj.t # "st" THEN {}
  ELSE UNION {
    LET F == M.fields[i]
        a == AttrOf(tv, F)
        s == EffSrc(F, obj)
    IN (IF F.oneof # "" /\ HasFlags(a) /\ F.kind # "custom" THEN
          LET h == GetPath(obj, <<F.oneof>>)
              active == h.t = "one" /\ h.b = F.name
          IN IF ~active THEN (IF a.null THEN {} ELSE {V("C07.to.inactive_null", F, "")})
             ELSE (IF a.null <=> PayloadZero(F, h.w) THEN {} ELSE {V("C07.to.active_iff_nonzero", F, "")})
        ELSE {})
       \cup (IF F.kind = "obj" /\ s.t \in {"ptr", "st"} THEN C07To(SubOf(F), Deref(s), a)
             ELSE IF F.kind = "objlist" /\ s.t = "seq" /\ a.k = "list" /\ Len(a.elems) = Len(s.e)
                  THEN UNION {IF s.e[j].t = "nil" THEN {} ELSE C07To(SubOf(F), Deref(s.e[j]), a.elems[j]) : j \in DOMAIN s.e}
             ELSE IF F.kind = "objmap" /\ s.t = "map" /\ a.k = "map"
                  THEN UNION {IF s.m[key].t = "nil" \/ key \notin DOMAIN a.mels THEN {} ELSE C07To(SubOf(F), Deref(s.m[key]), a.mels[key]) : key \in DOMAIN s.m}
             ELSE {})
    : i \in DOMAIN M.fields }

\* CopyFrom: exactly one known branch => that branch with that value; none => nil whatever was there
RECURSIVE C07From(_, _, _)
C07From(M, tv, obj) ==
  IF ~(tv.k = "obj" /\ Known(tv)) \/ obj.t # "st" THEN {}
  ELSE
  (UNION {
    LET h == M.oneofs[g]
        branches == {i \in DOMAIN M.fields : M.fields[i].oneof = h}
        wellformed == \A i \in branches : HasFlags(AttrOf(tv, M.fields[i])) /\ TypedAs(M.fields[i], AttrOf(tv, M.fields[i]))
        known == {i \in branches : Known(AttrOf(tv, M.fields[i]))}
        hv == GetPath(obj, <<h>>)
    IN IF ~wellformed \/ branches = {} THEN {}
       ELSE IF known = {} THEN (IF hv.t = "nil" THEN {} ELSE {V("C07.from.none", M.fields[CHOOSE i \in branches : TRUE], "")})
       ELSE IF Cardinality(known) = 1 THEN
          LET F == M.fields[CHOOSE i \in known : TRUE]
              a == AttrOf(tv, F)
          IN IF hv.t = "one" /\ hv.b = F.name /\ (F.kind = "prim" => hv.w = Sc(a.v)) /\ (F.kind = "obj" => hv.w.t = "ptr")
             THEN {} ELSE {V("C07.from.single", F, "")}
       ELSE {}
    : g \in DOMAIN M.oneofs })
  \cup UNION {
    LET F == M.fields[i]
        a == AttrOf(tv, F)
        s == EffSrc(F, obj)
    IN IF F.kind = "obj" /\ s.t \in {"ptr", "st"} /\ HasFlags(a) THEN C07From(SubOf(F), a, Deref(s)) ELSE {}
    : i \in DOMAIN M.fields }

---------------------------------------------------------------------------
\* C04 / C19  round trip up to the documented normal form

ScalarZeros == {"0", "-0", "", "false"}

RECURSIVE NFg(_)
NFg(g) ==
  CASE g.t = "s" -> IF g.s = "-0" THEN Sc("0") ELSE g
    [] g.t = "ptr" -> Ptr(NFg(g.p))
    [] g.t = "st" -> St([n \in DOMAIN g.f |-> NFg(g.f[n])])
    [] g.t = "seq" -> IF Len(g.e) = 0 THEN Nil ELSE SeqV([i \in DOMAIN g.e |-> NFg(g.e[i])])
    [] g.t = "map" -> IF DOMAIN g.m = {} THEN Nil ELSE MapV([key \in DOMAIN g.m |-> NFg(g.m[key])])
    [] g.t = "one" -> IF g.w.t = "nil" \/ (g.w.t = "s" /\ g.w.s \in ScalarZeros) THEN Nil ELSE One(g.b, NFg(g.w))
    [] OTHER -> g

RECURSIVE NF(_, _)
RECURSIVE NFFields(_, _, _, _)
RECURSIVE NFEmbeds(_, _, _)

NFDeep(F, val) ==
  LET S == SubOf(F)
      one(x) == IF x.t = "ptr" THEN Ptr(NF(S, x.p)) ELSE IF x.t = "st" THEN NF(S, x) ELSE x
  IN CASE F.kind = "obj" -> one(val)
       [] F.kind = "objlist" /\ val.t = "seq" -> IF Len(val.e) = 0 THEN Nil ELSE SeqV([i \in DOMAIN val.e |-> one(val.e[i])])
       [] F.kind = "objmap" /\ val.t = "map" -> IF DOMAIN val.m = {} THEN Nil ELSE MapV([key \in DOMAIN val.m |-> one(val.m[key])])
       [] OTHER -> NFg(val)

\* message-typed parts (where nested embed rules may apply) are normalised through their built message
NFFields(M, i, orig, g) ==
  IF i > Len(M.fields) THEN g
  ELSE LET F == M.fields[i]
           deep == F.kind \in {"obj", "objlist", "objmap"} /\ F.oneof = ""
           val == GetPath(orig, F.gopath)
       IN NFFields(M, i + 1, orig, IF deep /\ val.t # "panic" THEN SetPath(g, F.gopath, NFDeep(F, val)) ELSE g)

\* a nullable embedded message whose fields are all zero is identified with nil
NFEmbeds(M, i, g) ==
  IF i > Len(M.fields) THEN g
  ELSE LET F == M.fields[i]
           pp == Front(F.gopath)
           par == IF F.embed = "" THEN Nil ELSE GetPath(g, pp)
       IN NFEmbeds(M, i + 1, IF par.t = "ptr" /\ par.p = NFg(F.pzero) THEN SetPath(g, pp, Nil) ELSE g)

NF(M, gv) == IF gv.t # "st" THEN NFg(gv) ELSE NFEmbeds(M, 1, NFFields(M, 1, gv, NFg(gv)))

\* custom-type fields are converted by the user's hooks, not by the generator: masked
RECURSIVE MaskCustomGo(_, _, _)
MaskCustomGo(M, i, g) ==
  IF i > Len(M.fields) THEN g
  ELSE LET F == M.fields[i]
       IN MaskCustomGo(M, i + 1, IF F.kind = "custom" /\ F.oneof = "" /\ CanSet(g, F.gopath) THEN SetPath(g, F.gopath, Nil) ELSE g)

\* per-unit differences between two normal forms of the same message
RtDiff(c, M, orig, a, b) ==
  LET fieldDiffs == UNION {
        LET F == M.fields[i]
            gp == IF F.oneof # "" THEN <<F.oneof>> ELSE F.gopath
        IN IF F.placeholder \/ GetPath(a, gp) = GetPath(b, gp) THEN {} ELSE {V(c, F, ParentTrig(F, orig))}
        : i \in DOMAIN M.fields }
  IN IF a = b THEN {} ELSE IF fieldDiffs = {} THEN {VG(c, M.path)} ELSE fieldDiffs

\* ctx: [M, orig (value copied into the empty object), back (value read back into a fresh struct)]
C04(ctx) ==
  RtDiff("C04.roundtrip", ctx.M, ctx.orig, NF(ctx.M, MaskCustomGo(ctx.M, 1, ctx.orig)), NF(ctx.M, MaskCustomGo(ctx.M, 1, ctx.back)))

C19(ctx) ==
  RtDiff("C19.exact", ctx.M, ctx.orig, NF(ctx.M, MaskCustomGo(ctx.M, 1, ctx.orig)), NF(ctx.M, MaskCustomGo(ctx.M, 1, ctx.back)))

=============================================================================
