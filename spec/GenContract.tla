----------------------------- MODULE GenContract -----------------------------
(***************************************************************************)
(* Contract clauses about one plugin run and the schema it generates       *)
(* (C01, C02, C10, C12, C16, C18), evaluated on REAL observations:         *)
(*   gen     the run summary recorded by the harness (exit status, stdout  *)
(*           decoding, file names, package clause, top-level functions     *)
(*           with normalised signatures, compile result, log events)       *)
(*   schema  the projection of the tfsdk.Schema GenSchema<T> returned      *)
(***************************************************************************)
EXTENDS Schema

SigSchema == "func(context.Context) (tfsdk.Schema, diag.Diagnostics)"
SigFrom(T) == "func(context.Context, types.Object, *" \o T \o ") diag.Diagnostics"
SigTo(T) == "func(context.Context, *" \o T \o ", *types.Object) diag.Diagnostics"

FnSchema(T) == "GenSchema" \o T
FnFrom(T) == "Copy" \o T \o "FromTerraform"
FnTo(T) == "Copy" \o T \o "ToTerraform"
ThreeOf(T) == {FnSchema(T), FnFrom(T), FnTo(T)}

\* the functions the properties speak about: top-level functions named GenSchema<T>, Copy<T>FromTerraform or
\* Copy<T>ToTerraform (classified by the harness: `api`); unexported helpers of the shared code are nobody's business
TopFuncs(gen) == {gen.funcs[i].name : i \in {j \in DOMAIN gen.funcs : gen.funcs[j].api}}
FuncNamed(gen, n) == gen.funcs[CHOOSE i \in DOMAIN gen.funcs : gen.funcs[i].name = n]

\* selected types of the generated file that can be built whole
Buildable(d, cfg) == {T \in Selected(d, cfg) : BuildRoot(d, cfg, T).ok}
Poisoned(d, cfg) == Selected(d, cfg) \ Buildable(d, cfg)

TargetPackage(d, cfg) == IF cfg.separate /\ ~cfg.samename THEN "tfout" ELSE d.pkg

\* C01: the response and the file as a whole (d, cfg inside D: every selected type is buildable)
C01Run(d, cfg, gen) ==
  LET exp == UNION {ThreeOf(T) : T \in Buildable(d, cfg)}
      got == TopFuncs(gen)
      sigOK(T) == /\ FuncNamed(gen, FnSchema(T)).nsig = SigSchema
                  /\ FuncNamed(gen, FnFrom(T)).nsig = SigFrom(T)
                  /\ FuncNamed(gen, FnTo(T)).nsig = SigTo(T)
  IN   (IF gen.exit # 0 THEN {VG("C01.exit", d.pkg)} ELSE {})
  \cup (IF ~gen.decodeok THEN {VG("C01.stdout", d.pkg)} ELSE {})
  \cup (IF gen.features # 1 THEN {VG("C01.features", d.pkg)} ELSE {})
  \cup (IF Len(gen.files) # 1 THEN {VG("C01.onefile", d.pkg)} ELSE {})
  \cup (IF gen.filebase # d.pkg \o "_terraform.go" THEN {VG("C01.name", d.pkg)} ELSE {})
  \cup (IF ~gen.licenseok THEN {VG("C01.license", d.pkg)} ELSE {})
  \cup (IF gen.package # TargetPackage(d, cfg) THEN {VG("C01.package", d.pkg)} ELSE {})
  \cup (IF gen.compile # "" THEN {VG("C01.compiles", d.pkg)} ELSE {})
  \cup {VG("C01.funcs", n) : n \in (exp \ got) \cup (got \ exp)}
  \cup {VG("C01.funcs", "signature of " \o T) : T \in {U \in Buildable(d, cfg) : ThreeOf(U) \subseteq got /\ ~sigOK(U)}}

\* C12: exactly the selected types
C12Exact(d, cfg, gen) ==
  LET exp == UNION {ThreeOf(T) : T \in Buildable(d, cfg)}
      got == TopFuncs(gen)
  IN {VG("C12.exact", n) : n \in (exp \ got) \cup (got \ exp)}

\* C18: a poisoned type has none of its functions, the others all three, the type is named in the log
C18Run(d, cfg, gen) ==
  LET got == TopFuncs(gen)
  IN   (IF gen.exit # 0 THEN {VG("C18.exit", d.pkg)} ELSE {})
  \cup {VG("C18.none_for_poisoned", T) : T \in {U \in Poisoned(d, cfg) : ThreeOf(U) \cap got # {}}}
  \cup {VG("C18.others_intact", T) : T \in {U \in Buildable(d, cfg) : ~(ThreeOf(U) \subseteq got)}}
  \* a log line above info level names the type (gen.named: whatever the wording; gen.warned: the current wording)
  \cup {VG("C18.logged", T) : T \in {U \in Poisoned(d, cfg) : ~\E i \in DOMAIN gen.named : gen.named[i] = U}}
  \cup (IF gen.compile # "" THEN {VG("C18.compiles", d.pkg)} ELSE {})

\* C16: failure cases
C16Fault(cfg, gen) ==
  IF cfg.fault \in {"notypes", "emptytypes", "missingfile", "malformed", "mistypedlist", "mistypedbool", "mistypedmap"}
  THEN (IF gen.exit = 0 THEN {VG("C16." \o cfg.fault \o "_fails", cfg.fault)} ELSE {})
       \cup (IF Len(gen.files) # 0 THEN {VG("C16." \o cfg.fault \o "_nofile", cfg.fault)} ELSE {})
  ELSE {}

\* C13: the separate-package layout compiles and imports the struct package under a qualifier
C13Run(d, cfg, gen) ==
  IF ~cfg.separate THEN {}
  ELSE (IF gen.exit # 0 \/ gen.compile # "" THEN {VG("C13.compiles", gen.key)} ELSE {})
       \cup (IF ~\E i \in DOMAIN gen.imports : gen.imports[i] = gen.structimport THEN {VG("C13.qualified_import", gen.key)} ELSE {})
       \cup (IF gen.package # TargetPackage(d, cfg) THEN {VG("C13.package", gen.key)} ELSE {})

\* alternative renderings of the same run (other channel split, permuted entry order, plain repetition,
\* permuted declaration order): C14 compares the raw response bytes, C15 / C16 the generated file
AltViol(cfg, gen) ==
  UNION {
    LET a == cfg.alts[i]
        r == gen.alts[i]
        bytesClause == a.clause = "C14.same_sha"
    IN IF r.exit # 0 \/ r.files # 1 THEN {VG(a.clause, a.name \o " failed")}
       ELSE IF bytesClause /\ r.sha # gen.sha THEN {VG(a.clause, a.name)}
       ELSE IF ~bytesClause /\ r.contentsha # gen.contentsha THEN {VG(a.clause, a.name)}
       ELSE {}
    : i \in DOMAIN cfg.alts }
AltProps(cfg) == {cfg.alts[i].clause : i \in DOMAIN cfg.alts}

\* ---------------------------------------------------------------------------
\* C02 / C10: the real schema against the documented mapping
PathOf(M, a) == M.path \o "." \o a

RECURSIVE SchemaDiff(_, _)
SchemaDiff(M, real) ==
  LET model == SchemaOf(M)
      rn == DOMAIN real
      mn == DOMAIN model
      injected == {M.injected[i].name : i \in DOMAIN M.injected}
      fieldOf(a) == FieldByAttr(M, a)
      \* where the mismatch sits: fields of a message embedded into a message below the root
      here == IF M.hasembed /\ M.depth > 0 THEN "embed-below-root" ELSE ""
      trigOf(F) == IF here # "" THEN here ELSE IF F.msg # NoMsg /\ SubOf(F).hasembed THEN "sub-embed-below-root" ELSE ""
  IN {IF a \in injected THEN VG("C10.injected", PathOf(M, a))
      \* (the placeholder of a message without fields is C10's to state, like its type and flags below)
      ELSE IF fieldOf(a).placeholder THEN V("C10.placeholder", fieldOf(a), "attribute missing")
      ELSE V("C02.bijection", fieldOf(a), "attribute missing " \o here) : a \in mn \ rn}
     \cup {[c |-> "C02.bijection", p |-> PathOf(M, a) \o " unexpected attribute", sig |-> here] : a \in rn \ mn}
     \cup UNION {
       LET r == real[a]
           m == model[a]
           inj == a \in injected
           F == IF inj THEN Placeholder(M.path) ELSE fieldOf(a)
           v(c) == IF inj THEN VG("C10.injected", PathOf(M, a)) ELSE V(c, F, trigOf(F))
           ph == ~inj /\ F.placeholder
       IN (IF r.type # m.type \/ r.mode # m.mode THEN {v(IF ph THEN "C10.placeholder" ELSE "C02.type")} ELSE {})
          \* injected attributes carry their configured flags verbatim (a computed-only one is neither)
          \cup (IF ~inj /\ r.required = r.optional THEN {v("C10.req_xor_opt")} ELSE {})
          \cup (IF inj /\ r.optional # m.optional THEN {v("C10.injected")} ELSE {})
          \cup (IF r.required # m.required THEN {v(IF ph THEN "C10.placeholder" ELSE "C10.required")} ELSE {})
          \cup (IF r.computed # m.computed THEN {v(IF ph THEN "C10.placeholder" ELSE "C10.computed")} ELSE {})
          \cup (IF r.sensitive # m.sensitive THEN {v("C10.sensitive")} ELSE {})
          \cup (IF r.validators # m.validators THEN {v("C10.validators")} ELSE {})
          \cup (IF r.planmods # m.planmods THEN {v(IF F.computed /\ ~inj THEN "C10.usfu_default" ELSE "C10.planmods")} ELSE {})
          \cup (IF r.descw # m.descw \/ ~r.descclean THEN {v(IF ph THEN "C10.placeholder" ELSE "C10.description")} ELSE {})
          \cup (IF ~inj /\ m.mode # "none" /\ r.mode = m.mode THEN SchemaDiff(SubOf(F), r.sub) ELSE {})
       : a \in rn \cap mn }

C02Of(S) == {x \in S : x.c \in {"C02.bijection", "C02.type"}}
C10Of(S) == S \ C02Of(S)
=============================================================================
