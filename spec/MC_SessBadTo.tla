---- MODULE MC_SessBadTo ----
(* Family "badto": SetObj v ; LoadRaw (empty object with attribute types removed) ; CopyTo.  Serves C06 (CopyTo part). *)
EXTENDS Shapes, TLC, Json
CONSTANTS MCDeep, MCLong
VARIABLES sh, M, Mi, obj, tf, dg, pn, pc, hist, viol, aux
MCShapes == AllSessionShapes
MCScript == IF MCLong THEN <<"SetObj", "LoadRaw", "CopyTo">> ELSE <<"SetObj", "LoadRaw", "CopyTo">>
MCProps == {"C06"}
ASSUME PrintT("SHAPES " \o ToJson(MCShapes))
INSTANCE Session WITH Shapes <- MCShapes, Script <- MCScript, Deep <- MCDeep, Props <- MCProps, ObjMode <- "all", RawMode <- "reduced", EmptyMode <- "plain"
====
