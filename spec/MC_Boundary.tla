---- MODULE MC_Boundary ----
(* Family "boundary": SetObj b ; NewEmpty ; CopyTo ; FreshObj ; CopyFrom for every entry b of the boundary table of the
   Go type, in every scalar position of every proto scalar type.  Serves C19, C04, C03, C20.  The harness appends seeded random
   values of the same Go types to the same behaviours. *)
EXTENDS GenShapes, TLC, Json
CONSTANTS MCDeep, MCLong
VARIABLES sh, M, Mi, obj, tf, dg, pn, pc, hist, viol, aux
MCShapes == BoundaryShapes
MCProps == {"C19", "C04", "C03", "C20"}
MCScript == <<"SetObj", "NewEmpty", "CopyTo", "FreshObj", "CopyFrom">>
ASSUME PrintT("SHAPES " \o ToJson(MCShapes))
INSTANCE Session WITH Shapes <- MCShapes, Script <- MCScript, Deep <- MCDeep, Props <- MCProps, ObjMode <- "boundary", RawMode <- "plans", EmptyMode <- "plain"
====
