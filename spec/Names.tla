------------------------------- MODULE Names -------------------------------
(***************************************************************************)
(* The name pool of the supported fragment D (DESIGN.md §3.1) and the      *)
(* documented naming rules, stated as a table: proto name, the Go name     *)
(* protoc-gen-gogo gives the field / oneof holder, and snake_case of the   *)
(* proto name.  TLC has no string functions, so every derived name is a    *)
(* table lookup; the concretiser (harness/concretise) uses the proto name  *)
(* as it stands, the real generator computes the other two.                *)
(***************************************************************************)
EXTENDS Naturals, Sequences, FiniteSets

NameTable == <<
  [p |-> "Fa", g |-> "Fa", s |-> "fa"],
  [p |-> "Fb", g |-> "Fb", s |-> "fb"],
  [p |-> "Fc", g |-> "Fc", s |-> "fc"],
  [p |-> "Fd", g |-> "Fd", s |-> "fd"],
  [p |-> "Fe", g |-> "Fe", s |-> "fe"],
  [p |-> "Ff", g |-> "Ff", s |-> "ff"],
  [p |-> "Fg", g |-> "Fg", s |-> "fg"],
  [p |-> "Fh", g |-> "Fh", s |-> "fh"],
  [p |-> "Fi", g |-> "Fi", s |-> "fi"],
  [p |-> "Fj", g |-> "Fj", s |-> "fj"],
  [p |-> "Fk", g |-> "Fk", s |-> "fk"],
  [p |-> "Fl", g |-> "Fl", s |-> "fl"],
  [p |-> "Fm", g |-> "Fm", s |-> "fm"],
  [p |-> "Fn", g |-> "Fn", s |-> "fn"],
  [p |-> "Fo", g |-> "Fo", s |-> "fo"],
  [p |-> "Str",      g |-> "Str",      s |-> "str"],
  [p |-> "Num",      g |-> "Num",      s |-> "num"],
  [p |-> "Flt",      g |-> "Flt",      s |-> "flt"],
  [p |-> "Flag",     g |-> "Flag",     s |-> "flag"],
  [p |-> "Raw",      g |-> "Raw",      s |-> "raw"],
  [p |-> "Kind",     g |-> "Kind",     s |-> "kind"],
  [p |-> "Sub",      g |-> "Sub",      s |-> "sub"],
  [p |-> "Sub2",     g |-> "Sub2",     s |-> "sub2"],
  [p |-> "Items",    g |-> "Items",    s |-> "items"],
  [p |-> "Tags",     g |-> "Tags",     s |-> "tags"],
  [p |-> "Subs",     g |-> "Subs",     s |-> "subs"],
  [p |-> "Dict",     g |-> "Dict",     s |-> "dict"],
  [p |-> "When",     g |-> "When",     s |-> "when"],
  [p |-> "Whens",    g |-> "Whens",    s |-> "whens"],
  [p |-> "Dur",      g |-> "Dur",      s |-> "dur"],
  [p |-> "Durs",     g |-> "Durs",     s |-> "durs"],
  [p |-> "FooBar",   g |-> "FooBar",   s |-> "foo_bar"],
  [p |-> "foo_bar",  g |-> "FooBar",   s |-> "foo_bar"],
  [p |-> "foobar",   g |-> "Foobar",   s |-> "foobar"],
  \* message names that are a proper suffix / prefix of the message name FooBar
  [p |-> "Bar",      g |-> "Bar",      s |-> "bar"],
  [p |-> "Foo",      g |-> "Foo",      s |-> "foo"],
  \* an ordinary message named like the entry messages protoc declares for map fields
  [p |-> "LogEntry", g |-> "LogEntry", s |-> "log_entry"],
  \* the names protoc gives the two fields of a map entry message, here as names of ordinary fields
  [p |-> "value",    g |-> "Value",    s |-> "value"],
  [p |-> "key",      g |-> "Key",      s |-> "key"],
  [p |-> "lower_num", g |-> "LowerNum", s |-> "lower_num"],
  [p |-> "a_b",      g |-> "AB",       s |-> "a_b"],
  [p |-> "x_y_z",    g |-> "XYZ",      s |-> "x_y_z"],
  [p |-> "max_t_t_l", g |-> "MaxTTL",  s |-> "max_t_t_l"],
  [p |-> "BranchA",  g |-> "BranchA",  s |-> "branch_a"],
  [p |-> "BranchB",  g |-> "BranchB",  s |-> "branch_b"],
  [p |-> "BranchC",  g |-> "BranchC",  s |-> "branch_c"],
  [p |-> "BranchD",  g |-> "BranchD",  s |-> "branch_d"],
  [p |-> "branch_e", g |-> "BranchE",  s |-> "branch_e"],
  [p |-> "Alpha",    g |-> "Alpha",    s |-> "alpha"],
  [p |-> "Zed",      g |-> "Zed",      s |-> "zed"],
  [p |-> "Mid",      g |-> "Mid",      s |-> "mid"],
  [p |-> "Extra",    g |-> "Extra",    s |-> "extra"],
  [p |-> "Bad",      g |-> "Bad",      s |-> "bad"],
  [p |-> "Cust",     g |-> "Cust",     s |-> "cust"],
  [p |-> "Custs",    g |-> "Custs",    s |-> "custs"],
  [p |-> "Leaf",     g |-> "Leaf",     s |-> "leaf"],
  [p |-> "Inner",    g |-> "Inner",    s |-> "inner"],
  [p |-> "Outer",    g |-> "Outer",    s |-> "outer"],
  [p |-> "Empty",    g |-> "Empty",    s |-> "empty"],
  [p |-> "Nothing",  g |-> "Nothing",  s |-> "nothing"],
  [p |-> "Grp",      g |-> "Grp",      s |-> "grp"],
  [p |-> "Grp2",     g |-> "Grp2",     s |-> "grp2"],
  [p |-> "lower_grp", g |-> "LowerGrp", s |-> "lower_grp"],
  \* an upper-camel oneof group name with an initialism (gogo keeps it, a case converter would not)
  [p |-> "TLSMode",  g |-> "TLSMode",  s |-> "t_l_s_mode"],
  [p |-> "Root",     g |-> "Root",     s |-> "root"],
  [p |-> "Other",    g |-> "Other",    s |-> "other"],
  [p |-> "Third",    g |-> "Third",    s |-> "third"],
  [p |-> "Poison",   g |-> "Poison",   s |-> "poison"] >>

PoolNames == {NameTable[i].p : i \in DOMAIN NameTable}

NameRow(p) == CHOOSE i \in DOMAIN NameTable : NameTable[i].p = p

\* Go identifier of a field / oneof holder: gogo's CamelCase of the proto name.
GoName(p) == IF p \in PoolNames THEN NameTable[NameRow(p)].g ELSE p

\* documented default attribute name: snake_case of the proto name.
Snake(p) == IF p \in PoolNames THEN NameTable[NameRow(p)].s ELSE p

\* Go's byte order on the Go names used for sorting (sort.Slice by Field.Name); "active" is the
\* placeholder.  Upper-case letters sort before lower-case ones.
GoNameOrder == << "AB", "Alpha", "Bad", "Bar", "BranchA", "BranchB", "BranchC", "BranchD", "BranchE", "Cust", "Custs",
  "Dict", "Dur", "Durs", "Empty", "Extra", "Fa", "Fb", "Fc", "Fd", "Fe", "Ff", "Fg", "Fh", "Fi", "Fj", "Fk", "Fl", "Flag", "Flt", "Fm", "Fn", "Fo", "Foo", "FooBar", "Foobar", "Grp", "Grp2", "Inner", "Items", "Key", "Kind",
  "Leaf", "LogEntry", "LowerGrp", "LowerNum", "MaxTTL", "Mid", "Nothing", "Num", "Other", "Outer", "Poison", "Raw", "Root", "Str",
  "Sub", "Sub2", "Subs", "TLSMode", "Tags", "Third", "Value", "When", "Whens", "XYZ", "Zed", "active" >>

Rank(g) == IF \E i \in DOMAIN GoNameOrder : GoNameOrder[i] = g
           THEN CHOOSE i \in DOMAIN GoNameOrder : GoNameOrder[i] = g
           ELSE 0

\* json tags of the pool and their first comma separated element
JsonTagTable == <<
  [tag |-> "",                 first |-> ""],
  [tag |-> "-",                first |-> "-"],
  [tag |-> "-,omitempty",      first |-> "-"],
  [tag |-> ",omitempty",       first |-> ""],
  [tag |-> "jname",            first |-> "jname"],
  [tag |-> "jname,omitempty",  first |-> "jname"],
  [tag |-> "j_two,omitempty",  first |-> "j_two"],
  [tag |-> "j_three",          first |-> "j_three"],
  \* names spelled with dashes (legal in a json tag and in name_overrides; kept as they are)
  [tag |-> "max-age",              first |-> "max-age"],
  [tag |-> "burst-size,omitempty", first |-> "burst-size"] >>

JsonFirst(tag) == LET R == {i \in DOMAIN JsonTagTable : JsonTagTable[i].tag = tag}
                  IN IF R = {} THEN tag ELSE JsonTagTable[CHOOSE i \in R : TRUE].first

=============================================================================
