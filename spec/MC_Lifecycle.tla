---- MODULE MC_Lifecycle ----
(* Family "lifecycle": the provider life cycle on one object -- create (LoadPlan p ; FreshObj ; CopyFrom ; CopyTo back into
   the plan = apply echo), then refresh (a new API value copied into the state the echo left, twice).  The state a refresh
   meets here stems from a PLAN (known nulls, known empty collections, planned values), not from a copy into an empty
   object as in family "refresh".  Serves C09 (and C08 for the first half). *)
EXTENDS Shapes, TLC, Json
CONSTANTS MCDeep, MCLong
VARIABLES sh, M, Mi, obj, tf, dg, pn, pc, hist, viol, aux
MCShapes == RefreshShapes
MCScript == IF MCLong THEN <<"LoadPlan", "FreshObj", "CopyFrom", "CopyTo", "SetObj", "CopyTo", "CopyTo">>
                      ELSE <<"LoadPlan", "FreshObj", "CopyFrom", "CopyTo", "SetPrior", "CopyTo", "CopyTo">>
MCProps == {"C08", "C09"}
ASSUME PrintT("SHAPES " \o ToJson(MCShapes))
INSTANCE Session WITH Shapes <- MCShapes, Script <- MCScript, Deep <- MCDeep, Props <- MCProps, ObjMode <- "all", RawMode <- "plans", EmptyMode <- "plain"
====
