------------------------------- MODULE Schema -------------------------------
(***************************************************************************)
(* Model of the emitted GenSchema<T> (gen_schema.go): the schema tree of a *)
(* built message, in the shape the harness projects a real tfsdk.Schema    *)
(* into (drv.SchemaToJ):                                                   *)
(*   [name |-> [type, mode, sub, required, optional, computed, sensitive,  *)
(*              descw, validators, planmods]]                              *)
(* descw is the description split into words (TLC has no string           *)
(* functions; the projection supplies `descw` and `descclean`).            *)
(***************************************************************************)
EXTENDS Gen

RECURSIVE FlattenWords(_)
FlattenWords(lines) == IF lines = <<>> THEN <<>> ELSE Head(lines).w \o FlattenWords(Tail(lines))

PlaceholderWords == <<"Automatically", "generated", "field", "preventing", "empty", "message", "errors">>

ModeOf(F) ==
  CASE F.kind = "obj" -> "single"
    [] F.kind = "objlist" -> "list"
    [] F.kind = "objmap" -> "map"
    [] OTHER -> "none"

TagSeq(prefix, tags) == [i \in DOMAIN tags |-> IF tags[i] = "USFU" THEN "USFU" ELSE prefix \o tags[i]]

RECURSIVE SchemaOf(_)
AttrModel(F) ==
  [type |-> TTofField(F),
   mode |-> IF F.kind = "custom" THEN "none" ELSE ModeOf(F),
   sub |-> IF F.kind \in {"obj", "objlist", "objmap"} THEN SchemaOf(SubOf(F)) ELSE EmptyFn,
   required |-> F.required, optional |-> ~F.required, computed |-> F.computed, sensitive |-> F.sensitive,
   descw |-> IF F.placeholder THEN PlaceholderWords
             ELSE IF F.kind = "custom" THEN <<"hook:" \o F.suffix>> \o FlattenWords(F.desc)
             ELSE FlattenWords(F.desc),
   validators |-> TagSeq("V", F.validators),
   planmods |-> TagSeq("PM", F.planmods)]

InjModel(i) ==
  [type |-> TPrim(i.type), mode |-> "none", sub |-> EmptyFn,
   required |-> i.required, optional |-> i.optional, computed |-> i.computed, sensitive |-> FALSE,
   descw |-> <<>>, validators |-> TagSeq("V", i.validators), planmods |-> TagSeq("PM", i.planmods)]

SchemaOf(M) ==
  Merge([a \in AttrNames(M) |-> AttrModel(FieldByAttr(M, a))],
        [a \in {M.injected[i].name : i \in DOMAIN M.injected} |->
           InjModel(M.injected[CHOOSE i \in DOMAIN M.injected : M.injected[i].name = a])])

\* the real projection restricted to the modelled keys
RealAttr(r) == [type |-> r.type, mode |-> r.mode, required |-> r.required, optional |-> r.optional,
                computed |-> r.computed, sensitive |-> r.sensitive, descw |-> r.descw,
                validators |-> r.validators, planmods |-> r.planmods]
=============================================================================
