------------------------------ MODULE Boundary ------------------------------
(***************************************************************************)
(* The boundary table of C19 (DESIGN.md §3.4): per Go type of a scalar     *)
(* field the extreme and awkward values, as canonical strings.  The spec   *)
(* treats scalars as opaque; what it contributes to C19 is the enumeration *)
(* of these values in every scalar position (singular, list element, map   *)
(* value, oneof branch, cast type) and the equality judgement on the       *)
(* values read back from the real code.                                    *)
(***************************************************************************)
EXTENDS Gen

Boundary(goty) ==
  CASE goty = "int32" -> {"-2147483648", "2147483647", "-1", "1", "0"}
    [] goty = "uint32" -> {"4294967295", "2147483648", "2147483647", "1", "0"}
    [] goty = "int64" -> {"-9223372036854775808", "9223372036854775807", "-1", "1", "0", "4294967296"}
    [] goty = "uint64" -> {"18446744073709551615", "9223372036854775808", "9223372036854775807", "1", "0"}
    [] goty = "float32" -> {"0x1p-149", "0x1.fffffep+127", "-0x1.fffffep+127", "0x1.000002p+00", "0x1p-126", "-0x1p-149", "-0", "0", "0x1.8p+00"}
    [] goty = "float64" -> {"0x1p-1074", "0x1.fffffffffffffp+1023", "-0x1.fffffffffffffp+1023", "0x1.0000000000001p+00",
                            "0x1.000002p+00", "0x1.fffffep+127", "-0", "0", "0x1.8p+00"}
    [] goty = "bool" -> {"true", "false"}
    [] goty \in {"string", "bytes"} -> {"", "61", "ff", "00", "e282ac", "c328", "2f5c2225",
                                        "6162636465666768696a6b6c6d6e6f707172737475767778797a303132333435363738396162636465666768696a6b6c6d6e6f70"}
    [] goty = "enum" -> {"0", "1", "2", "-1", "2147483647", "-2147483648"}
    [] goty = "time" -> {ZeroTime, "2024-01-02T03:04:05.000000006Z", "1999-12-31T23:59:59.999999999+05:30",
                         "9999-12-31T23:59:59.999999999Z", "1970-01-01T00:00:00Z", "1969-12-31T23:59:59.999999999-08:00"}
    [] goty = "duration" -> {"0", "-1", "1000000007", "-9223372036854775808", "9223372036854775807"}
    [] OTHER -> {}

\* every scalar position of the message set to b (positions of other Go types keep a fixed value)
ScalarAt(F, b) == IF F.nullable THEN Ptr(Sc(b)) ELSE Sc(b)
BoundaryField(F, b) ==
  CASE F.kind = "prim" -> ScalarAt(F, b)
    [] F.kind = "primlist" -> SeqV(<<ScalarAt(F, b), ScalarAt(F, ZeroScalar(F.cls)), ScalarAt(F, b)>>)
    [] F.kind = "primmap" -> MapV([key \in {"k1", "k2"} |-> ScalarAt(F, IF key = "k1" THEN b ELSE ZeroScalar(F.cls))])
    [] OTHER -> Nil

RECURSIVE BoundaryFill(_, _, _, _)
BoundaryFill(M, i, b, g) ==
  IF i > Len(M.fields) THEN g
  ELSE LET F == M.fields[i]
           scalar == F.kind \in {"prim", "primlist", "primmap"} /\ ~F.placeholder
           \* a field of a nullable embedded message: the holder is allocated by the first of its fields
           g1 == IF scalar /\ F.oneof = "" /\ Len(F.gopath) > 1 /\ GetPath(g, Front(F.gopath)).t = "nil"
                 THEN SetPath(g, Front(F.gopath), Ptr(F.pzero)) ELSE g
       IN BoundaryFill(M, i + 1, b,
            IF ~scalar THEN g
            ELSE IF F.oneof # "" THEN SetPath(g, F.opath, One(F.name, ScalarAt(F, b)))
            ELSE SetPath(g1, F.gopath, BoundaryField(F, b)))

\* one struct value per boundary value of the message's (single) scalar Go type
BoundaryVals(M) ==
  LET tys == {M.fields[i].goty : i \in DOMAIN M.fields} \ {""}
  IN UNION {{BoundaryFill(M, 1, b, M.zero) : b \in Boundary(t)} : t \in tys}
=============================================================================
