---- MODULE MC_GenConfig ----
(* Family "genconfig": one configuration delivered through every single-option channel assignment (YAML / CLI / both with contradicting YAML), all-CLI, all-both and mixed assignments; failure cases.  Serves C16. *)
EXTENDS GenShapes, TLC, Json
CONSTANTS MCDeep, MCLong
VARIABLES sh, M, Mi, obj, tf, dg, pn, pc, hist, viol, aux
MCShapes == GenConfigShapes(MCLong)
MCProps == {"C16"}
MCScript == <<>>
ASSUME PrintT("SHAPES " \o ToJson(MCShapes))
INSTANCE Session WITH Shapes <- MCShapes, Script <- MCScript, Deep <- MCDeep, Props <- MCProps, ObjMode <- "all", RawMode <- "plans", EmptyMode <- "plain"
====
