---- MODULE MC_GenSelect ----
(* Family "genselect": every non-empty types selection x sort x request extension (extra message, extra dependency file).  Serves C12. *)
EXTENDS GenShapes, TLC, Json
CONSTANTS MCDeep, MCLong
VARIABLES sh, M, Mi, obj, tf, dg, pn, pc, hist, viol, aux
MCShapes == GenSelectShapes(MCLong)
MCProps == {"C12"}
MCScript == <<>>
ASSUME PrintT("SHAPES " \o ToJson(MCShapes))
INSTANCE Session WITH Shapes <- MCShapes, Script <- MCScript, Deep <- MCDeep, Props <- MCProps, ObjMode <- "all", RawMode <- "plans", EmptyMode <- "plain"
====
