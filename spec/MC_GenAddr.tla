---- MODULE MC_GenAddr ----
(* Family "genaddr": each field-addressed option x each key form (full path / Message.field) on a descriptor whose message types occur at several paths (singular, list, map, depth 3, embedded below the root); the real schema is compared with the documented addressing.  Serves C11. *)
EXTENDS GenShapes, TLC, Json
CONSTANTS MCDeep, MCLong
VARIABLES sh, M, Mi, obj, tf, dg, pn, pc, hist, viol, aux
MCShapes == GenAddrShapes
MCProps == {"C11"}
MCScript == <<>>
ASSUME PrintT("SHAPES " \o ToJson(MCShapes))
INSTANCE Session WITH Shapes <- MCShapes, Script <- MCScript, Deep <- MCDeep, Props <- MCProps, ObjMode <- "all", RawMode <- "plans", EmptyMode <- "plain"
====
