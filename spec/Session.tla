------------------------------- MODULE Session -------------------------------
(***************************************************************************)
(* The converter life-cycle machine (DESIGN.md §1, §4.1).  State: the      *)
(* built message M of a shape, the Go struct value obj, the Terraform      *)
(* object tf, the diagnostics / panic flag of the last call.  Transitions  *)
(* are the public operations a provider performs on the generated code:    *)
(*   SetObj v     the provider obtains a struct value (API result, prior)  *)
(*   FreshObj     a fresh zero struct                                      *)
(*   NewEmpty     an object with the schema's attribute types, no values   *)
(*   LoadPlan p   a plan / state / config decoded by the framework         *)
(*   LoadRaw p    a hand-built object (payload under null, corruption,     *)
(*                attribute types removed)                                 *)
(*   CopyTo       Copy<T>ToTerraform(obj, &tf)                             *)
(*   CopyFrom     Copy<T>FromTerraform(tf, obj)                            *)
(* The next-state relation of the two copy actions is the Impl model       *)
(* (CopyTo.tla / CopyFrom.tla) over Mi, the built message with the named   *)
(* deviations of the current tree; Judge applies the Contract (over M, the  *)
(* documented mapping) to every                                            *)
(* transition and the failing clauses are collected in `viol`              *)
(* (Impl => Contract at the design level).  A model configuration          *)
(* restricts behaviours to a Script (sequence of action names) so that     *)
(* each property family explores exactly the histories its quantifier      *)
(* names; `hist` is the replay vector handed to the real code.             *)
(***************************************************************************)
EXTENDS Judge, Boundary, Json

CONSTANTS Shapes,    \* sequence of [id, d, cfg, root]
          Script,    \* sequence of action names
          Deep,      \* thorough value sets?
          Props,     \* property ids whose clauses are evaluated
          ObjMode,   \* "all" | "prior"   : what SetObj chooses from
          RawMode,   \* "plans" | "corrupt" | "reduced" : what LoadRaw chooses from
          EmptyMode  \* "plain" | "flags" : what NewEmpty chooses from

VARIABLES sh, M, Mi, obj, tf, dg, pn, pc, hist, viol, aux

vars == <<sh, M, Mi, obj, tf, dg, pn, pc, hist, viol, aux>>

NilObject == VObj(FALSE, FALSE, EmptyFn, EmptyFn, TRUE)
NoArg == Nil

Step(e, arg) == [ev |-> e, arg |-> arg]

Built(i) == BuildRoot(Shapes[i].d, Shapes[i].cfg, Shapes[i].root)

Init ==
  /\ sh \in {i \in DOMAIN Shapes : Built(i).ok}
  /\ M = Built(sh).m
  /\ Mi = BuildRootImpl(Shapes[sh].d, Shapes[sh].cfg, Shapes[sh].root).m
  /\ obj = M.zero /\ tf = NilObject /\ dg = <<>> /\ pn = FALSE
  /\ pc = 1 /\ hist = <<>> /\ viol = {} /\ aux = NoAux

\* A panic ends a behaviour unless the caller recovers and the next call of the script replaces the side the
\* panicking call may have written halfway: the struct after CopyFrom, the Terraform object after CopyTo.
Recovers == /\ pn /\ pc > 1 /\ pc <= Len(Script)
            /\ \/ Script[pc - 1] = "CopyFrom" /\ Script[pc] \in {"SetObj", "SetPrior", "FreshObj"}
               \/ Script[pc - 1] = "CopyTo" /\ Script[pc] \in {"LoadRaw", "LoadPlan"}
At(e) == pc <= Len(Script) /\ Script[pc] = e /\ (~pn \/ Recovers)

\* a transition: event e with argument arg leading to (o2, t2) with diagnostics d2 / panic p2
Do(e, arg, o2, t2, d2, p2) ==
  LET j == Judge(e, Props, M, M.tt, aux, [pobj |-> obj, ptf |-> tf, obj |-> o2, tf |-> t2, dg |-> d2, pn |-> p2, conv |-> TRUE, hooks |-> <<>>])
  IN /\ pc' = pc + 1 /\ hist' = Append(hist, Step(e, arg))
     /\ obj' = o2 /\ tf' = t2 /\ dg' = d2 /\ pn' = p2
     /\ viol' = viol \cup j.viol
     \* the memo only serves trace validation (pairing across behaviours); one behaviour never needs it
     /\ aux' = [j.aux EXCEPT !.memo = EmptyFn]
     /\ UNCHANGED <<sh, M, Mi>>

SetObj(v) == At("SetObj") /\ Do("SetObj", v, v, tf, <<>>, FALSE)
\* the same operation with the few values that matter as PRIOR content of a target (zero, everything set)
SetPrior(v) == At("SetPrior") /\ Do("SetObj", v, v, tf, <<>>, FALSE)
FreshObj == At("FreshObj") /\ Do("FreshObj", NoArg, M.zero, tf, <<>>, FALSE)
\* "an object that carries the attribute types of the schema and no values": the plain one (an empty Attrs map) and, for
\* the zero and the fully set struct, the other forms a caller holds before anything was written: a nil Attrs map,
\* an object flagged unknown, an object flagged null (the state of a resource that does not exist yet), each of the
\* flagged ones with a nil and with an allocated, empty Attrs map
EmptyChoices ==
  {EmptyObject(M.tt.at)} \cup
  (IF EmptyMode = "flags" /\ obj \in {M.zero, RichOf(M, UnitsOf(M), M.zero)}
   THEN {VObj(FALSE, FALSE, EmptyFn, M.tt.at, TRUE), VObj(FALSE, TRUE, EmptyFn, M.tt.at, TRUE), VObj(TRUE, FALSE, EmptyFn, M.tt.at, TRUE),
         \* ... and the flagged forms with an allocated, empty Attrs map
         VObj(FALSE, TRUE, EmptyFn, M.tt.at, FALSE), VObj(TRUE, FALSE, EmptyFn, M.tt.at, FALSE)}
   ELSE {})
NewEmpty == At("NewEmpty") /\ \E e \in EmptyChoices : Do("NewEmpty", e, obj, e, <<>>, FALSE)
Load(e, p) == At(e) /\ Do(e, p, obj, p, <<>>, FALSE)
CopyTo == At("CopyTo") /\ LET r == ToMsg(Mi, obj, tf) IN Do("CopyTo", NoArg, obj, r.tf, r.dg, r.pn)
CopyFrom == At("CopyFrom") /\ LET r == FromMsg(Mi, tf, obj) IN Do("CopyFrom", NoArg, r.obj, tf, r.dg, r.pn)

\* data the scripts choose from (a model configuration may narrow them)
ObjChoices == CASE ObjMode = "prior" -> PriorVals(M, Deep)
                 [] ObjMode = "boundary" -> BoundaryVals(M)
                 [] OTHER -> MsgVals(M, Deep, FALSE)
\* a plan as the framework decodes it and, where it holds a known EMPTY list / map, also the form in which provider code
\* (defaults, plan modifiers) writes such a collection: Elems nil instead of allocated.  The same Terraform value.
RECURSIVE NilEmptyElems(_)
NilEmptyElems(tv) ==
  CASE tv.k = "obj" -> IF Known(tv) THEN [tv EXCEPT !.attrs = [n \in DOMAIN tv.attrs |-> NilEmptyElems(tv.attrs[n])]] ELSE tv
    [] tv.k = "list" -> IF ~Known(tv) THEN tv ELSE IF tv.elems = <<>> THEN [tv EXCEPT !.elemsnil = TRUE]
                        ELSE [tv EXCEPT !.elems = [i \in DOMAIN tv.elems |-> NilEmptyElems(tv.elems[i])]]
    [] tv.k = "map" -> IF ~Known(tv) THEN tv ELSE IF DOMAIN tv.mels = {} THEN [tv EXCEPT !.elemsnil = TRUE]
                       ELSE [tv EXCEPT !.mels = [key \in DOMAIN tv.mels |-> NilEmptyElems(tv.mels[key])]]
    [] OTHER -> tv
PlanChoices == LET base == {DecodedForm(p) : p \in {q \in MsgPlans(M, FALSE, FALSE) : C08Plan(M, q)}}
               IN base \cup {NilEmptyElems(p) : p \in base}
RawChoices == CASE RawMode = "corrupt" -> Corrupted(M, Deep)
                [] RawMode = "reduced" -> Reduced(M, Deep)
                [] OTHER -> MsgPlans(M, TRUE, FALSE)

Next ==
  \/ At("SetObj") /\ \E v \in ObjChoices : SetObj(v)
  \/ At("SetPrior") /\ \E v \in {M.zero, RichOf(M, UnitsOf(M), M.zero)} : SetPrior(v)
  \/ FreshObj \/ NewEmpty \/ CopyTo \/ CopyFrom
  \/ At("LoadPlan") /\ \E p \in PlanChoices : Load("LoadPlan", p)
  \/ At("LoadRaw") /\ \E p \in RawChoices : Load("LoadRaw", p)

Spec == Init /\ [][Next]_vars

Done == pc > Len(Script) \/ (pn /\ ~Recovers)

\* replay vector: printed once per complete behaviour (used as an INVARIANT: evaluated on every new state)
Emit ==
  Done => PrintT(ToJson([shape |-> Shapes[sh].id, steps |-> hist, modelviol |-> viol, modelpanic |-> pn]))
=============================================================================
