------------------------------- MODULE Session -------------------------------
(***************************************************************************)
(* The converter life-cycle machine (DESIGN.md §1, §4.1).  State: the      *)
(* built message M of a shape, the Go struct value obj, the Terraform      *)
(* object tf, the diagnostics / panic flag of the last call.  Transitions  *)
(* are the public operations a provider performs on the generated code:    *)
(*   SetObj v     the provider obtains a struct value (API result, prior)  *)
(*   FreshObj     a fresh zero struct                                      *)
(*   NewEmpty     an object with the schema's attribute types, no values   *)
(*   LoadPlan p   a plan / state / config decoded by the framework         *)
(*   LoadRaw p    a hand-built object (payload under null, corruption)     *)
(*   CopyTo       Copy<T>ToTerraform(obj, &tf)                             *)
(*   CopyFrom     Copy<T>FromTerraform(tf, obj)                            *)
(* The next-state relation of the two copy actions is the Impl model       *)
(* (CopyTo.tla / CopyFrom.tla); the Contract clauses are evaluated on      *)
(* every such transition and collected in `viol` (Impl => Contract at the  *)
(* design level).  A model configuration restricts behaviours to a Script  *)
(* (sequence of action names) so that each property family explores       *)
(* exactly the histories its quantifier names; `hist` is the replay vector *)
(* handed to the real code.                                                *)
(***************************************************************************)
EXTENDS Gen, Json

CONSTANTS Shapes,    \* sequence of [id, d, cfg, root]
          Script,    \* sequence of action names
          Deep,      \* thorough value sets?
          Props      \* property ids whose clauses are evaluated

VARIABLES sh, M, obj, tf, dg, pn, pc, hist, viol, rt

vars == <<sh, M, obj, tf, dg, pn, pc, hist, viol, rt>>

NilObject == VObj(FALSE, FALSE, EmptyFn, EmptyFn, TRUE)
NoRT == [armed |-> FALSE, orig |-> Nil]
NoArg == Nil

Step(e, arg) == [ev |-> e, arg |-> arg]

Built(i) == BuildRoot(Shapes[i].d, Shapes[i].cfg, Shapes[i].root)

Init ==
  /\ sh \in {i \in DOMAIN Shapes : Built(i).ok}
  /\ M = Built(sh).m
  /\ obj = M.zero /\ tf = NilObject /\ dg = <<>> /\ pn = FALSE
  /\ pc = 1 /\ hist = <<>> /\ viol = {} /\ rt = NoRT

At(e) == pc <= Len(Script) /\ Script[pc] = e /\ ~pn
Advance(e, arg) == pc' = pc + 1 /\ hist' = Append(hist, Step(e, arg))

Wants(p) == p \in Props

IsEmptyTyped(tv) == tv.k = "obj" /\ ~tv.null /\ ~tv.unk /\ tv.at = M.tt.at /\ DOMAIN tv.attrs = {}

SetObj(v) ==
  /\ At("SetObj") /\ Advance("SetObj", v)
  /\ obj' = v /\ rt' = NoRT
  /\ UNCHANGED <<sh, M, tf, dg, pn, viol>>

FreshObj ==
  /\ At("FreshObj") /\ Advance("FreshObj", NoArg)
  /\ obj' = M.zero
  /\ UNCHANGED <<sh, M, tf, dg, pn, viol, rt>>

NewEmpty ==
  /\ At("NewEmpty") /\ Advance("NewEmpty", NoArg)
  /\ tf' = EmptyObject(M.tt.at) /\ rt' = NoRT
  /\ UNCHANGED <<sh, M, obj, dg, pn, viol>>

Load(e, p) ==
  /\ At(e) /\ Advance(e, p)
  /\ tf' = p /\ rt' = NoRT
  /\ UNCHANGED <<sh, M, obj, dg, pn, viol>>

CopyTo ==
  /\ At("CopyTo") /\ Advance("CopyTo", NoArg)
  /\ LET r == ToMsg(M, obj, tf)
         fromEmpty == IsEmptyTyped(tf)
         \* at the design level the framework conversion observer is implied by typed + present
         ctx == [M |-> M, tt |-> M.tt, obj |-> obj, tf |-> r.tf, dg |-> r.dg, pn |-> r.pn, conv |-> TRUE]
     IN /\ tf' = r.tf /\ dg' = r.dg /\ pn' = r.pn
        /\ rt' = IF fromEmpty /\ ~r.pn THEN [armed |-> TRUE, orig |-> obj] ELSE NoRT
        /\ viol' = viol
             \cup (IF fromEmpty /\ Wants("C03") THEN C03(ctx) ELSE {})
             \cup (IF fromEmpty /\ Wants("C20") THEN C20(ctx) ELSE {})
             \cup (IF fromEmpty /\ Wants("C07") /\ ~r.pn THEN C07To(M, obj, r.tf) ELSE {})
  /\ UNCHANGED <<sh, M, obj>>

CopyFrom ==
  /\ At("CopyFrom") /\ Advance("CopyFrom", NoArg)
  /\ LET r == FromMsg(M, tf, obj)
         fresh == obj = M.zero
         rtctx == [M |-> M, orig |-> rt.orig, back |-> r.obj]
     IN /\ obj' = r.obj /\ dg' = r.dg /\ pn' = r.pn
        /\ rt' = NoRT
        /\ viol' = viol
             \cup (IF rt.armed /\ fresh /\ ~r.pn /\ Wants("C04") THEN C04(rtctx) ELSE {})
             \cup (IF rt.armed /\ fresh /\ ~r.pn /\ Wants("C19") THEN C19(rtctx) ELSE {})
             \cup (IF rt.armed /\ fresh /\ r.pn /\ (Wants("C04") \/ Wants("C19")) THEN {[c |-> "C04.roundtrip", p |-> M.path, sig |-> PanicSig(M, obj)]} ELSE {})
             \cup (IF Wants("C07") /\ ~r.pn /\ Conforms(tf, M.tt) THEN C07From(M, tf, r.obj) ELSE {})
  /\ UNCHANGED <<sh, M, tf>>

Next ==
  \/ At("SetObj") /\ \E v \in MsgVals(M, Deep, FALSE) : SetObj(v)
  \/ FreshObj \/ NewEmpty \/ CopyTo \/ CopyFrom
  \/ At("LoadPlan") /\ \E p \in MsgPlans(M, FALSE, FALSE) : Load("LoadPlan", p)
  \/ At("LoadRaw") /\ \E p \in MsgPlans(M, TRUE, FALSE) : Load("LoadRaw", p)

Spec == Init /\ [][Next]_vars

Done == pc > Len(Script) \/ pn

\* replay vector: printed once per complete behaviour (used as an INVARIANT: evaluated on every new state)
Emit ==
  Done => PrintT(ToJson([shape |-> Shapes[sh].id, steps |-> hist, modelviol |-> viol, modelpanic |-> pn]))
=============================================================================
