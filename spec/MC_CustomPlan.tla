---- MODULE MC_CustomPlan ----
(* Family "customplan": custom-type fields in a target that comes from a PLAN: SetObj v ; LoadPlan p ; CopyTo ; CopyTo, with the custom attribute null, unknown or known in p: the hook gets the CURRENT value of the attribute, whatever its state.  Serves C17. *)
EXTENDS GenShapes, TLC, Json
CONSTANTS MCDeep, MCLong
VARIABLES sh, M, Mi, obj, tf, dg, pn, pc, hist, viol, aux
MCShapes == CustomShapes
MCProps == {"C17"}
MCScript == <<"SetObj", "LoadPlan", "CopyTo", "CopyTo">>
ASSUME PrintT("SHAPES " \o ToJson(MCShapes))
INSTANCE Session WITH Shapes <- MCShapes, Script <- MCScript, Deep <- MCDeep, Props <- MCProps, ObjMode <- "all", RawMode <- "plans", EmptyMode <- "plain"
====
