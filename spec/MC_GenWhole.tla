---- MODULE MC_GenWhole ----
(* Family "genwhole": a selected type with one unmappable field at any depth, with and without its exclusion, next to a healthy type.  Serves C18. *)
EXTENDS GenShapes, TLC, Json
CONSTANTS MCDeep, MCLong
VARIABLES sh, M, Mi, obj, tf, dg, pn, pc, hist, viol, aux
MCShapes == GenWholeShapes(MCLong)
MCProps == {"C18", "C03", "C02"}
MCScript == <<"SetObj", "NewEmpty", "CopyTo">>
ASSUME PrintT("SHAPES " \o ToJson(MCShapes))
INSTANCE Session WITH Shapes <- MCShapes, Script <- MCScript, Deep <- MCDeep, Props <- MCProps, ObjMode <- "all", RawMode <- "plans", EmptyMode <- "plain"
====
