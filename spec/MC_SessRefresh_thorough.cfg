SPECIFICATION Spec
CONSTANT MCDeep = FALSE
CONSTANT MCLong = TRUE
INVARIANT Emit
CHECK_DEADLOCK FALSE
