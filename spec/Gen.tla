--------------------------------- MODULE Gen ---------------------------------
(***************************************************************************)
(* Curated value generators (DESIGN.md §4.4): for a built message the set  *)
(* of Go values and of Terraform plan objects the exhaustive models        *)
(* enumerate.  Constructive (no filtering of function spaces); every case  *)
(* the properties name is present: zero / non-zero scalars, nil / empty /  *)
(* 1 / 2 element collections, same length with different content, nil /   *)
(* non-nil pointers, each oneof branch or none.                            *)
(* Deep == TRUE selects the thorough value sets.                           *)
(***************************************************************************)
EXTENDS Contract

NonZeroA(cls) ==
  CASE cls \in {"int", "enum"} -> "1"
    [] cls = "float" -> "0x1.8p+00"
    [] cls = "bool" -> "true"
    [] cls \in {"string", "bytes"} -> "61"
    [] cls = "time" -> "2024-01-02T03:04:05.000000006Z"
    [] cls = "duration" -> "1000000007"
    [] OTHER -> "61"

NonZeroB(cls) ==
  CASE cls \in {"int", "enum"} -> "2"
    [] cls = "float" -> "-0x1p-02"
    [] cls = "bool" -> "true"
    [] cls \in {"string", "bytes"} -> "6262"
    [] cls = "time" -> "1999-12-31T23:59:59.999999999+05:30"
    [] cls = "duration" -> "-5"
    [] OTHER -> "6262"

ScalarVals(cls, deep) ==
  {ZeroScalar(cls), NonZeroA(cls)} \cup (IF deep THEN {NonZeroB(cls)} \cup (IF cls = "float" THEN {"-0"} ELSE {}) ELSE {})

\* element values of a primitive list / map
PrimElemVals(F, deep) == IF F.nullable THEN {Nil} \cup {Ptr(Sc(s)) : s \in ScalarVals(F.cls, deep)} ELSE {Sc(s) : s \in ScalarVals(F.cls, deep)}

Pick(S) == CHOOSE x \in S : TRUE

ListsOver(E, za, deep) ==
  LET a == za[1] b == za[2]
  IN {Nil, SeqV(<<>>), SeqV(<<a>>), SeqV(<<a, b>>)}
     \cup (IF deep THEN {SeqV(<<b>>), SeqV(<<b, a>>), SeqV(<<a, b, a>>)} ELSE {})

MapsOver(E, za, deep) ==
  LET a == za[1] b == za[2]
  IN {Nil, MapV(EmptyFn), MapV([key \in {"k1"} |-> a]), MapV([key \in {"k1", "k2"} |-> IF key = "k1" THEN b ELSE a])}
     \cup (IF deep THEN {MapV([key \in {"k2"} |-> a]), MapV([key \in {"k1"} |-> b]), MapV([key \in {"k2", "k3"} |-> b])} ELSE {})

RECURSIVE MsgVals(_, _, _)
RECURSIVE ApplyUnits(_, _, _, _, _)

\* two representative element values <<a, b>>: non-zero first
TwoOf(F, deep, small) ==
  IF F.kind \in {"primlist", "primmap"} THEN
     IF F.nullable THEN <<Ptr(Sc(NonZeroA(F.cls))), Nil>> ELSE <<Sc(NonZeroA(F.cls)), Sc(ZeroScalar(F.cls))>>
  ELSE LET S == MsgVals(SubOf(F), FALSE, TRUE)
           nz == IF S \ {SubOf(F).zero} = {} THEN SubOf(F).zero ELSE Pick(S \ {SubOf(F).zero})
       IN IF F.nullable THEN <<Ptr(nz), IF small THEN Ptr(SubOf(F).zero) ELSE Nil>> ELSE <<nz, SubOf(F).zero>>

FieldVals(F, deep, small) ==
  CASE F.kind = "prim" /\ F.placeholder -> {Sc("false")}
    [] F.kind = "prim" -> PrimElemVals(F, deep /\ ~small)
    [] F.kind = "custom" -> {Sc(ZeroScalar(F.cls)), Sc(NonZeroA(F.cls))}
    [] F.kind \in {"primlist", "objlist"} ->
         IF small THEN {Nil, SeqV(<<TwoOf(F, deep, TRUE)[1]>>)} ELSE ListsOver({}, TwoOf(F, deep, FALSE), deep)
    [] F.kind \in {"primmap", "objmap"} ->
         IF small THEN {Nil, MapV([key \in {"k1"} |-> TwoOf(F, deep, TRUE)[1]])} ELSE MapsOver({}, TwoOf(F, deep, FALSE), deep)
    [] OTHER -> \* obj
         LET S == MsgVals(SubOf(F), deep /\ ~small, small)
         IN IF F.nullable THEN {Nil} \cup {Ptr(x) : x \in S} ELSE S

\* units of a message: plain fields, oneof groups, optional-embed parents
PlainIdx(M) == {i \in DOMAIN M.fields : M.fields[i].oneof = "" /\ M.fields[i].embed = "" /\ ~M.fields[i].placeholder}
EmbedParents(M) == {Front(M.fields[i].gopath) : i \in {j \in DOMAIN M.fields : M.fields[j].embed # ""}}

BranchVals(F, deep, small) ==
  IF F.kind = "obj" THEN FieldVals(F, deep, TRUE) ELSE {Sc(s) : s \in ScalarVals(F.cls, FALSE)}

OneofVals(M, h, deep, small) ==
  {Nil} \cup UNION {{One(M.fields[i].name, w) : w \in BranchVals(M.fields[i], deep, small)}
                    : i \in {j \in DOMAIN M.fields : M.fields[j].oneof = h}}

\* all values of message M: the product over its units, applied to the zero struct
\* units are processed in a fixed order; acc is a set of partially filled structs
ApplyUnits(M, units, acc, deep, small) ==
  IF units = <<>> THEN acc
  ELSE LET u == Head(units)
           next ==
             CASE u.k = "field" -> {SetPath(g, M.fields[u.i].gopath, v) : g \in acc, v \in FieldVals(M.fields[u.i], deep, small)}
               [] u.k = "oneof" -> {SetPath(g, <<u.h>>, v) : g \in acc, v \in OneofVals(M, u.h, deep, small)}
               [] OTHER -> \* optional embed parent: nil, or allocated with every combination of its children
                  LET kids == {i \in DOMAIN M.fields : M.fields[i].embed # "" /\ Front(M.fields[i].gopath) = u.pp}
                      kidUnits == [j \in 1..Cardinality(kids) |-> [k |-> "field", i |-> SetToSeq(kids)[j]]]
                      F1 == M.fields[Pick(kids)]
                  IN acc \cup ApplyUnits(M, kidUnits, {SetPath(g, u.pp, Ptr(F1.pzero)) : g \in acc}, deep, small)
       IN ApplyUnits(M, Tail(units), next, deep, small)

UnitsOf(M) ==
  LET fs == SetToSeq(PlainIdx(M))
      os == M.oneofs
      es == SetToSeq(EmbedParents(M))
  IN [j \in DOMAIN fs |-> [k |-> "field", i |-> fs[j]]]
     \o [j \in DOMAIN os |-> [k |-> "oneof", h |-> os[j]]]
     \o [j \in DOMAIN es |-> [k |-> "embed", pp |-> es[j]]]

MsgVals(M, deep, small) == ApplyUnits(M, UnitsOf(M), {M.zero}, deep, small)

\* ------------------------------------------------------------------------
\* Terraform plan objects of a built message (what a plan / state / config of the schema type decodes
\* to): every leaf null / unknown / known zero / known non-zero; containers null / unknown / empty / filled.
\* raw = TRUE additionally yields hand-built values carrying a payload under null / unknown.

PrimPlans(ty, cls, raw) ==
  {VPrim(ty, TRUE, FALSE, ZeroOfTf(ty)), VPrim(ty, FALSE, TRUE, ZeroOfTf(ty)),
   VPrim(ty, FALSE, FALSE, ZeroOfTf(ty)), VPrim(ty, FALSE, FALSE, NonZeroA(cls))}
  \cup (IF raw THEN {VPrim(ty, TRUE, FALSE, NonZeroA(cls)), VPrim(ty, FALSE, TRUE, NonZeroA(cls))} ELSE {})

RECURSIVE MsgPlans(_, _, _)
RECURSIVE PlanProduct(_, _, _, _, _)

ElemPlansOf(F, raw, small) ==
  IF F.kind \in {"primlist", "primmap"}
  THEN <<VPrim(F.tfty, FALSE, FALSE, NonZeroA(F.cls)), VPrim(F.tfty, FALSE, FALSE, ZeroOfTf(F.tfty))>>
  ELSE LET S == MsgPlans(SubOf(F), FALSE, TRUE)
           kn == {x \in S : Known(x)}
       IN <<Pick(kn), Pick(kn)>>

FieldPlans(F, raw, small) ==
  LET ett == IF F.kind \in {"primlist", "primmap"} THEN TPrim(F.tfty) ELSE IF F.msg # NoMsg THEN SubOf(F).tt ELSE TNone
      ab == ElemPlansOf(F, raw, small)
  IN CASE F.kind \in {"prim"} -> IF small THEN {VPrim(F.tfty, TRUE, FALSE, ZeroOfTf(F.tfty)), VPrim(F.tfty, FALSE, FALSE, NonZeroA(F.cls))}
                                 ELSE PrimPlans(F.tfty, F.cls, raw)
       [] F.kind = "custom" -> {VPrim("string", TRUE, FALSE, "")}
       [] F.kind \in {"primlist", "objlist"} ->
            {VList(TRUE, FALSE, <<>>, ett, TRUE), VList(FALSE, FALSE, <<ab[1]>>, ett, FALSE)}
            \cup (IF small THEN {} ELSE {VList(FALSE, TRUE, <<>>, ett, TRUE), VList(FALSE, FALSE, <<>>, ett, FALSE), VList(FALSE, FALSE, <<ab[1], ab[2]>>, ett, FALSE)})
            \cup (IF raw /\ ~small THEN {VList(TRUE, FALSE, <<ab[1], ab[2]>>, ett, FALSE), VList(FALSE, TRUE, <<ab[1]>>, ett, FALSE)} ELSE {})
       [] F.kind \in {"primmap", "objmap"} ->
            {VMap(TRUE, FALSE, EmptyFn, ett, TRUE), VMap(FALSE, FALSE, [key \in {"k1"} |-> ab[1]], ett, FALSE)}
            \cup (IF small THEN {} ELSE {VMap(FALSE, TRUE, EmptyFn, ett, TRUE), VMap(FALSE, FALSE, EmptyFn, ett, FALSE),
                                          VMap(FALSE, FALSE, [key \in {"k1", "k2"} |-> IF key = "k1" THEN ab[2] ELSE ab[1]], ett, FALSE)})
            \cup (IF raw /\ ~small THEN {VMap(TRUE, FALSE, [key \in {"k1"} |-> ab[1]], ett, FALSE)} ELSE {})
       [] OTHER -> \* obj
            LET S == MsgPlans(SubOf(F), raw /\ ~small, small)
            IN S \cup {[Pick(S) EXCEPT !.null = TRUE, !.unk = FALSE, !.attrs = EmptyFn]}
                 \cup (IF small THEN {} ELSE {[Pick(S) EXCEPT !.null = FALSE, !.unk = TRUE, !.attrs = EmptyFn]})
                 \cup (IF raw /\ ~small THEN {[x EXCEPT !.null = TRUE] : x \in S} ELSE {})

PlanProduct(M, i, acc, raw, small) ==
  IF i > Len(M.fields) THEN acc
  ELSE LET F == M.fields[i]
       IN PlanProduct(M, i + 1, {[attrs EXCEPT ![F.attr] = v] : attrs \in acc, v \in FieldPlans(F, raw, small)}, raw, small)

\* injected attributes are null in every generated plan
MsgPlans(M, raw, small) ==
  LET base == [a \in DOMAIN M.tt.at |-> NullOf(M.tt.at[a])]
  IN {VObj(FALSE, FALSE, attrs, M.tt.at, FALSE) : attrs \in PlanProduct(M, 1, {base}, raw, small)}
=============================================================================
