--------------------------------- MODULE Gen ---------------------------------
(***************************************************************************)
(* Curated value generators (DESIGN.md §4.4): for a built message the set  *)
(* of Go values and of Terraform plan objects the exhaustive models        *)
(* enumerate.  Constructive (no filtering of function spaces); every case  *)
(* the properties name is present: zero / non-zero scalars, nil / empty /  *)
(* 1 / 2 element collections, same length with different content, nil /   *)
(* non-nil pointers, each oneof branch or none.                            *)
(* Deep == TRUE selects the thorough value sets.                           *)
(***************************************************************************)
EXTENDS Contract

NonZeroA(cls) ==
  CASE cls \in {"int", "enum"} -> "1"
    [] cls = "float" -> "0x1.8p+00"
    [] cls = "bool" -> "true"
    [] cls \in {"string", "bytes"} -> "61"
    [] cls = "time" -> "2024-01-02T03:04:05.000000006Z"
    [] cls = "duration" -> "1000000007"
    [] OTHER -> "61"

NonZeroB(cls) ==
  CASE cls \in {"int", "enum"} -> "2"
    [] cls = "float" -> "-0x1p-02"
    [] cls = "bool" -> "true"
    [] cls \in {"string", "bytes"} -> "6262"
    [] cls = "time" -> "1999-12-31T23:59:59.999999999+05:30"
    [] cls = "duration" -> "-5"
    [] OTHER -> "6262"

\* (time: the instant of NonZeroA in another zone as well - a refresh that compares instants instead of values keeps the old zone)
ScalarVals(cls, deep) ==
  {ZeroScalar(cls), NonZeroA(cls)} \cup (IF cls = "time" THEN {"2024-01-02T05:04:05.000000006+02:00"} ELSE {}) \cup (IF deep THEN {NonZeroB(cls)} \cup (IF cls = "float" THEN {"-0"} ELSE {}) ELSE {})

\* element values of a primitive list / map
PrimElemVals(F, deep) == IF F.nullable THEN {Nil} \cup {Ptr(Sc(s)) : s \in ScalarVals(F.cls, deep)} ELSE {Sc(s) : s \in ScalarVals(F.cls, deep)}

Pick(S) == CHOOSE x \in S : TRUE

ListsOver(E, za, deep) ==
  LET a == za[1] b == za[2]
  \* <<b, a>> next to <<a, b>>: a list that keeps its LENGTH while every element changes (zero / nil first, set later and
  \* the other way round) - a converter that reuses the elements the target already holds is seen by that pair only
  IN {Nil, SeqV(<<>>), SeqV(<<a>>), SeqV(<<a, b>>), SeqV(<<b, a>>)}
     \cup (IF deep THEN {SeqV(<<b>>), SeqV(<<a, b, a>>)} ELSE {})

MapsOver(E, za, deep) ==
  LET a == za[1] b == za[2]
  \* same size with another key set, subset / superset, disjoint: all in the quick tier already
  IN {Nil, MapV(EmptyFn), MapV([key \in {"k1"} |-> a]), MapV([key \in {"k2"} |-> a]), MapV([key \in {"k1", "k2"} |-> IF key = "k1" THEN b ELSE a])}
     \cup (IF deep THEN {MapV([key \in {"k1"} |-> b]), MapV([key \in {"k2", "k3"} |-> b]), MapV([key \in {"k1", "k3"} |-> a])} ELSE {})

RECURSIVE MsgVals(_, _, _)
RECURSIVE ApplyUnits(_, _, _, _, _)

\* two representative element values <<a, b>>: non-zero first
TwoOf(F, deep, small) ==
  IF F.kind \in {"primlist", "primmap"} THEN
     IF F.nullable THEN <<Ptr(Sc(NonZeroA(F.cls))), Nil>> ELSE <<Sc(NonZeroA(F.cls)), Sc(ZeroScalar(F.cls))>>
  ELSE LET S == MsgVals(SubOf(F), FALSE, TRUE)
           nz == IF S \ {SubOf(F).zero} = {} THEN SubOf(F).zero ELSE Pick(S \ {SubOf(F).zero})
       IN IF F.nullable THEN <<Ptr(nz), IF small THEN Ptr(SubOf(F).zero) ELSE Nil>> ELSE <<nz, SubOf(F).zero>>

FieldVals(F, deep, small) ==
  CASE F.kind = "prim" /\ F.placeholder -> {Sc("false")}
    [] F.kind = "prim" -> PrimElemVals(F, deep /\ ~small)
    [] F.kind = "custom" -> IF F.rep THEN {Nil, SeqV(<<Sc(NonZeroA(F.cls)), Sc(ZeroScalar(F.cls))>>)}
                            ELSE IF F.ismap THEN {Nil, MapV([key \in {"k1", "k2"} |-> IF key = "k1" THEN Sc(NonZeroA(F.cls)) ELSE Sc(ZeroScalar(F.cls))])}
                            ELSE {Sc(ZeroScalar(F.cls)), Sc(NonZeroA(F.cls))}
    [] F.kind \in {"primlist", "objlist"} ->
         IF small THEN {Nil, SeqV(<<TwoOf(F, deep, TRUE)[1]>>)} ELSE ListsOver({}, TwoOf(F, deep, FALSE), deep)
    [] F.kind \in {"primmap", "objmap"} ->
         IF small THEN {Nil, MapV([key \in {"k1"} |-> TwoOf(F, deep, TRUE)[1]])} ELSE MapsOver({}, TwoOf(F, deep, FALSE), deep)
    [] OTHER -> \* obj
         LET S == MsgVals(SubOf(F), deep /\ ~small, small)
         IN IF F.nullable THEN {Nil} \cup {Ptr(x) : x \in S} ELSE S

\* units of a message: plain fields, oneof groups, optional-embed parents
PlainIdx(M) == {i \in DOMAIN M.fields : M.fields[i].oneof = "" /\ M.fields[i].embed = "" /\ ~M.fields[i].placeholder}
EmbedParents(M) == {Front(M.fields[i].gopath) : i \in {j \in DOMAIN M.fields : M.fields[j].embed # ""}}

BranchVals(F, deep, small) ==
  IF F.kind = "obj" THEN FieldVals(F, deep, TRUE) ELSE {Sc(s) : s \in ScalarVals(F.cls, FALSE)}

OneofVals(M, h, deep, small) ==
  {Nil} \cup UNION {{One(M.fields[i].name, w) : w \in BranchVals(M.fields[i], deep, small)}
                    : i \in {j \in DOMAIN M.fields : M.fields[j].opath = h}}

\* all values of message M: the product over its units, applied to the zero struct
\* units are processed in a fixed order; acc is a set of partially filled structs
ApplyUnits(M, units, acc, deep, small) ==
  IF units = <<>> THEN acc
  ELSE LET u == Head(units)
           next ==
             CASE u.k = "field" -> {SetPath(g, M.fields[u.i].gopath, v) : g \in acc, v \in FieldVals(M.fields[u.i], deep, small)}
               [] u.k = "oneof" -> {SetPath(g, u.h, v) : g \in acc, v \in OneofVals(M, u.h, deep, small)}
               [] OTHER -> \* optional embed parent: nil, or allocated with every combination of its children
                  LET kids == {i \in DOMAIN M.fields : M.fields[i].embed # "" /\ Front(M.fields[i].gopath) = u.pp}
                      kidUnits == [j \in 1..Cardinality(kids) |-> [k |-> "field", i |-> SetToSeq(kids)[j]]]
                      F1 == M.fields[Pick(kids)]
                  IN acc \cup ApplyUnits(M, kidUnits, {SetPath(g, u.pp, Ptr(F1.pzero)) : g \in acc}, deep, small)
       IN ApplyUnits(M, Tail(units), next, deep, small)

UnitsOf(M) ==
  LET fs == SetToSeq(PlainIdx(M))
      os == M.ohold
      es == SetToSeq(EmbedParents(M))
  IN [j \in DOMAIN fs |-> [k |-> "field", i |-> fs[j]]]
     \o [j \in DOMAIN os |-> [k |-> "oneof", h |-> os[j]]]
     \o [j \in DOMAIN es |-> [k |-> "embed", pp |-> es[j]]]

\* a value with every unit set to some non-zero choice
RECURSIVE RichOf(_, _, _)
RichOf(M, units, acc) ==
  IF units = <<>> THEN acc
  ELSE LET S == ApplyUnits(M, <<Head(units)>>, {acc}, FALSE, TRUE) \ {acc}
       IN RichOf(M, Tail(units), IF S = {} THEN acc ELSE Pick(S))

\* messages with more than three units are covered diagonally (around the zero value and a value with
\* every unit set, each unit takes each of its values in turn), smaller ones by the full product
MsgVals(M, deep, small) ==
  LET units == UnitsOf(M)
      rich == RichOf(M, units, M.zero)
  IN IF Len(units) <= 3 THEN ApplyUnits(M, units, {M.zero}, deep, small)
     ELSE {M.zero, rich} \cup UNION {ApplyUnits(M, <<units[i]>>, {M.zero, rich}, deep, small) : i \in DOMAIN units}

\* ------------------------------------------------------------------------
\* Terraform plan objects of a built message (what a plan / state / config of the schema type decodes
\* to): every leaf null / unknown / known zero / known non-zero; containers null / unknown / empty / filled.
\* raw = TRUE additionally yields hand-built values carrying a payload under null / unknown.

\* null / unknown objects as the framework decodes them: no Attrs map
DecodedForm(tv) == IF tv.k = "obj" /\ ~Known(tv) THEN [tv EXCEPT !.attrs = EmptyFn, !.attrsnil = TRUE] ELSE tv

PrimPlans(ty, cls, raw) ==
  {VPrim(ty, TRUE, FALSE, ZeroOfTf(ty)), VPrim(ty, FALSE, TRUE, ZeroOfTf(ty)),
   VPrim(ty, FALSE, FALSE, ZeroOfTf(ty)), VPrim(ty, FALSE, FALSE, NonZeroA(cls))}
  \cup (IF raw THEN {VPrim(ty, TRUE, FALSE, NonZeroA(cls)), VPrim(ty, FALSE, TRUE, NonZeroA(cls))} ELSE {})

RECURSIVE MsgPlans(_, _, _)
RECURSIVE PlanProduct(_, _, _, _, _)

ElemPlansOf(F, raw, small) ==
  IF F.kind \in {"primlist", "primmap"}
  THEN <<VPrim(F.tfty, FALSE, FALSE, NonZeroA(F.cls)), VPrim(F.tfty, FALSE, FALSE, ZeroOfTf(F.tfty))>>
  ELSE LET S == MsgPlans(SubOf(F), FALSE, TRUE)
           kn == {x \in S : Known(x)}
       IN <<Pick(kn), Pick(kn)>>

FieldPlans(F, raw, small) ==
  LET ett == IF F.kind \in {"primlist", "primmap"} THEN TPrim(F.tfty) ELSE IF F.msg # NoMsg THEN SubOf(F).tt ELSE TNone
      ab == ElemPlansOf(F, raw, small)
  IN CASE F.kind \in {"prim"} -> IF small THEN {VPrim(F.tfty, TRUE, FALSE, ZeroOfTf(F.tfty)), VPrim(F.tfty, FALSE, FALSE, NonZeroA(F.cls)),
                                                \* (unknown is not null: "known after apply" is what a computed attribute looks like in a plan)
                                                VPrim(F.tfty, FALSE, TRUE, ZeroOfTf(F.tfty))}
                                 ELSE PrimPlans(F.tfty, F.cls, raw)
       \* (the harness's hooks present a custom-type field as a String attribute: null, unknown, known)
       [] F.kind = "custom" -> {VPrim("string", TRUE, FALSE, ""), VPrim("string", FALSE, TRUE, ""), VPrim("string", FALSE, FALSE, "6375")}
       [] F.kind \in {"primlist", "objlist"} ->
            {VList(TRUE, FALSE, <<>>, ett, TRUE), VList(FALSE, FALSE, <<ab[1]>>, ett, FALSE)}
            \cup (IF small THEN {} ELSE {VList(FALSE, TRUE, <<>>, ett, TRUE), VList(FALSE, FALSE, <<>>, ett, FALSE), VList(FALSE, FALSE, <<ab[1], ab[2]>>, ett, FALSE),
                                          \* null / unknown ELEMENTS after (and between) known ones
                                          VList(FALSE, FALSE, <<ab[1], DecodedForm(NullOf(ett))>>, ett, FALSE),
                                          VList(FALSE, FALSE, <<ab[1], [DecodedForm(NullOf(ett)) EXCEPT !.null = FALSE, !.unk = TRUE], ab[1]>>, ett, FALSE)})
            \cup (IF raw /\ ~small THEN {VList(TRUE, FALSE, <<ab[1], ab[2]>>, ett, FALSE), VList(FALSE, TRUE, <<ab[1]>>, ett, FALSE)} ELSE {})
       [] F.kind \in {"primmap", "objmap"} ->
            {VMap(TRUE, FALSE, EmptyFn, ett, TRUE), VMap(FALSE, FALSE, [key \in {"k1"} |-> ab[1]], ett, FALSE)}
            \cup (IF small THEN {} ELSE {VMap(FALSE, TRUE, EmptyFn, ett, TRUE), VMap(FALSE, FALSE, EmptyFn, ett, FALSE),
                                          VMap(FALSE, FALSE, [key \in {"k1", "k2"} |-> IF key = "k1" THEN ab[2] ELSE ab[1]], ett, FALSE),
                                          VMap(FALSE, FALSE, [key \in {"k1", "k2", "k3"} |-> IF key = "k2" THEN DecodedForm(NullOf(ett)) ELSE ab[1]], ett, FALSE),
                                          \* an element that is unknown as a whole next to a known one
                                          VMap(FALSE, FALSE, [key \in {"k1", "k2"} |-> IF key = "k2" THEN [DecodedForm(NullOf(ett)) EXCEPT !.null = FALSE, !.unk = TRUE] ELSE ab[1]], ett, FALSE)})
            \cup (IF raw /\ ~small THEN {VMap(TRUE, FALSE, [key \in {"k1"} |-> ab[1]], ett, FALSE)} ELSE {})
       [] OTHER -> \* obj
            LET S == MsgPlans(SubOf(F), raw /\ ~small, small)
            IN S \cup {[Pick(S) EXCEPT !.null = TRUE, !.unk = FALSE, !.attrs = EmptyFn, !.attrsnil = TRUE]}
                 \* (an unknown message is not a null one: kept in the small pool as well)
                 \cup {[Pick(S) EXCEPT !.null = FALSE, !.unk = TRUE, !.attrs = EmptyFn, !.attrsnil = TRUE]}
                 \cup (IF raw /\ ~small THEN {[x EXCEPT !.null = TRUE] : x \in S} ELSE {})

PlanProduct(M, i, acc, raw, small) ==
  IF i > Len(M.fields) THEN acc
  ELSE LET F == M.fields[i]
       IN PlanProduct(M, i + 1, {[attrs EXCEPT ![F.attr] = v] : attrs \in acc, v \in FieldPlans(F, raw, small)}, raw, small)

\* injected attributes are null in every generated plan.  Messages with more than two fields are covered
\* diagonally: around an all-null and an all-known base every field takes each of its values in turn (the
\* emitted code is a concatenation of per-field blocks; couplings exist only inside oneof groups, and both
\* bases exercise them), smaller messages by the full product.
MsgPlans(M, raw, small) ==
  LET base == [a \in DOMAIN M.tt.at |-> NullOf(M.tt.at[a])]
      prodSize == LET RECURSIVE P(_)
                      P(i) == IF i > Len(M.fields) THEN 1 ELSE Cardinality(FieldPlans(M.fields[i], raw, small)) * P(i + 1)
                  IN P(1)
      wide == Len(M.fields) > 2 \/ prodSize > 48
      sm == small \/ wide
      firstKnown(F) == LET K == {v \in FieldPlans(F, FALSE, TRUE) : Known(v)} IN IF K = {} THEN Pick(FieldPlans(F, FALSE, TRUE)) ELSE Pick(K)
      allNull == [a \in DOMAIN base |-> IF a \in AttrNames(M) THEN Pick({v \in FieldPlans(FieldByAttr(M, a), FALSE, TRUE) : ~Known(v)} \cup {base[a]}) ELSE base[a]]
      nullBase == [a \in DOMAIN base |-> IF a \in AttrNames(M) /\ \E v \in FieldPlans(FieldByAttr(M, a), FALSE, TRUE) : HasFlags(v) /\ v.null
                                          THEN Pick({v \in FieldPlans(FieldByAttr(M, a), FALSE, TRUE) : v.null}) ELSE base[a]]
      knownBase == [a \in DOMAIN base |-> IF a \in AttrNames(M) THEN firstKnown(FieldByAttr(M, a)) ELSE base[a]]
      diag == {nullBase, knownBase}
              \cup UNION {{[b EXCEPT ![M.fields[i].attr] = v] : b \in {nullBase, knownBase}, v \in FieldPlans(M.fields[i], raw, sm)} : i \in DOMAIN M.fields}
  IN IF wide THEN {VObj(FALSE, FALSE, attrs, M.tt.at, FALSE) : attrs \in diag}
     ELSE {VObj(FALSE, FALSE, attrs, M.tt.at, FALSE) : attrs \in PlanProduct(M, 1, {base}, raw, small)}

\* ------------------------------------------------------------------------
\* prior contents of a target struct (C05): zero, and values with every unit set
\* plus, for every list field, a list LONGER than any list of the plans (three non-zero elements): a converter that
\* keeps the storage of the target must still reset what null / unknown elements denote
LongLists(M) ==
  LET rich == RichOf(M, UnitsOf(M), M.zero)
  IN UNION {{SetPath(g, M.fields[i].gopath, SeqV(<<TwoOf(M.fields[i], FALSE, TRUE)[1], TwoOf(M.fields[i], FALSE, TRUE)[1], TwoOf(M.fields[i], FALSE, TRUE)[1]>>)) : g \in {M.zero, rich}}
            : i \in {j \in PlainIdx(M) : M.fields[j].kind \in {"primlist", "objlist"}}}
\* ... and, where the struct has Go fields that the schema does not describe (excluded fields, at the top level or inside
\* a message embedded by value), the zero and the rich value with every such scalar field set: "left untouched" must
\* be seen to hold for content that a wholesale reset of the struct (or of the embedded holder) would wipe
RECURSIVE FillUnmapped(_, _, _)
FillUnmapped(M, st, prefix) ==
  St([n \in DOMAIN st.f |-> LET p == prefix \o <<n>>
                                v == st.f[n]
                            IN IF ~CoveredPath(M, p)
                               THEN (CASE v = Sc("") -> Sc("6b657074") [] v = Sc("0") -> Sc("7") [] v = Sc("false") -> Sc("true") [] OTHER -> v)
                               ELSE IF EmbedHolderPath(M, p) /\ v.t = "st" THEN FillUnmapped(M, v, p) ELSE v])
WithUnmapped(M) == {FillUnmapped(M, g, <<>>) : g \in {M.zero, RichOf(M, UnitsOf(M), M.zero)}} \ {M.zero, RichOf(M, UnitsOf(M), M.zero)}
PriorVals(M, deep) == {M.zero} \cup MsgVals(M, FALSE, ~deep) \cup LongLists(M) \cup WithUnmapped(M)

\* ------------------------------------------------------------------------
\* malformed inputs (C06): every single corruption of a conforming object, at any depth
OtherPrim(F) == IF F.tfty = "bool" THEN VPrim("string", FALSE, FALSE, "") ELSE VPrim("bool", FALSE, FALSE, "false")

RECURSIVE CorruptObj(_, _)
CorruptObj(M, tv) ==
  IF tv.k # "obj" \/ ~Known(tv) THEN {}
  ELSE {[tv EXCEPT !.attrsnil = TRUE, !.attrs = EmptyFn]}
    \cup UNION {
      LET F == M.fields[i]
          a == tv.attrs[F.attr]
          put(x) == [tv EXCEPT !.attrs = [@ EXCEPT ![F.attr] = x]]
      IN {[tv EXCEPT !.attrs = Drop(@, F.attr)], put(VBad), put(VNilIf)}
         \cup (IF F.kind = "prim" THEN {put(OtherPrim(F))} ELSE {})
         \cup (IF F.kind = "obj" THEN {put(c) : c \in CorruptObj(SubOf(F), a)} ELSE {})
         \cup (IF F.kind \in {"primlist", "objlist"} /\ a.k = "list" /\ Known(a) THEN
                 {put([a EXCEPT !.elems = <<>>, !.elemsnil = TRUE])}
                 \cup UNION {{put([a EXCEPT !.elems[j] = VBad]), put([a EXCEPT !.elems[j] = VNilIf])} : j \in DOMAIN a.elems}
                 \* a wrong-typed element IN FRONT of the well-formed ones (which must still be copied, each with its diagnostics)
                 \cup {put([a EXCEPT !.elems = <<VBad>> \o @ \o @])}
                 \cup (IF F.kind = "objlist" THEN UNION {{put([a EXCEPT !.elems[j] = c]) : c \in CorruptObj(SubOf(F), a.elems[j])} : j \in DOMAIN a.elems} ELSE {})
                 \* ... and in front of a malformed one: what is missing there is still reported (the loop goes on after a bad element)
                 \cup (IF F.kind = "objlist" /\ a.elems # <<>> THEN {put([a EXCEPT !.elems = <<VBad, c>>]) : c \in CorruptObj(SubOf(F), a.elems[1])} ELSE {})
               ELSE {})
         \cup (IF F.kind \in {"primmap", "objmap"} /\ a.k = "map" /\ Known(a) THEN
                 {put([a EXCEPT !.mels = EmptyFn, !.elemsnil = TRUE])}
                 \cup UNION {{put([a EXCEPT !.mels[key] = VBad]), put([a EXCEPT !.mels[key] = VNilIf])} : key \in DOMAIN a.mels}
                 \cup (IF F.kind = "objmap" THEN UNION {{put([a EXCEPT !.mels[key] = c]) : c \in CorruptObj(SubOf(F), a.mels[key])} : key \in DOMAIN a.mels} ELSE {})
               ELSE {})
      : i \in {j \in DOMAIN M.fields : M.fields[j].attr \in DOMAIN tv.attrs} }

\* base plans to corrupt: fully known rich ones and the all-null one
CorruptBases(M) == LET P == MsgPlans(M, FALSE, TRUE) IN P

Corrupted(M, deep) ==
  LET one == UNION {CorruptObj(M, b) : b \in CorruptBases(M)}
  IN IF deep THEN one \cup UNION {CorruptObj(M, c) : c \in one} ELSE one

\* ------------------------------------------------------------------------
\* targets with attribute types removed (C06, CopyTo): at the top level, in nested objects, in list / map
\* element types
RECURSIVE Remove1(_)
Remove1(t) ==
  CASE t.k = "obj" -> {TObj(Drop(t.at, n)) : n \in DOMAIN t.at}
                      \cup UNION {{TObj([t.at EXCEPT ![n] = x]) : x \in Remove1(t.at[n])} : n \in DOMAIN t.at}
    [] t.k \in {"list", "map"} -> {[t EXCEPT !.et = x] : x \in Remove1(t.et)}
    [] OTHER -> {}

\* targets with one attribute type REPLACED by a type of another kind (at any level).  The property says nothing about
\* them (C06 quantifies over removed types); the implementation model does (a conversion diagnostic, the others still
\* written), so these targets keep that part of the specification bound to the code: a deviation shows as drift.
OtherType(t) == IF t = TPrim("string") THEN TPrim("bool") ELSE TPrim("string")
RECURSIVE Retype1(_)
Retype1(t) ==
  CASE t.k = "obj" -> {TObj([t.at EXCEPT ![n] = OtherType(t.at[n])]) : n \in DOMAIN t.at}
                      \cup UNION {{TObj([t.at EXCEPT ![n] = x]) : x \in Retype1(t.at[n])} : n \in DOMAIN t.at}
    [] t.k \in {"list", "map"} -> {[t EXCEPT !.et = OtherType(t.et)]} \cup {[t EXCEPT !.et = x] : x \in Retype1(t.et)}
    [] OTHER -> {}

Reduced(M, deep) ==
  LET one == Remove1(M.tt)
      two == IF deep THEN UNION {Remove1(t) : t \in one} ELSE {}
  IN {EmptyObject(t.at) : t \in one \cup two \cup Retype1(M.tt)}
=============================================================================
