------------------------------- MODULE Judge -------------------------------
(***************************************************************************)
(* One place where the Contract is applied to a transition of the session  *)
(* machine.  Session.tla calls it with the Impl model's post-state (design *)
(* level: Impl => Contract), Trace.tla with the post-state RECORDED from   *)
(* the real code (the verdict).  `aux` is the history the relational       *)
(* properties need (hidden from the behaviour: it never influences the     *)
(* next state of obj / tf):                                                *)
(*   rt     the value copied into an empty object (C04, C19)               *)
(*   chain  tf is the product of CopyTo calls on an initially empty object *)
(*          or on a plan that was echoed (C08) -- a fully-known earlier state*)
(*   last   source of the preceding CopyTo (idempotence, C09)              *)
(*   echo   plan / decoded struct / echoed plan of the apply cycle (C08)   *)
(*   memo   payload-free skeleton of the input |-> result (C05 pairwise)   *)
(***************************************************************************)
EXTENDS Gen

NoRT == [armed |-> FALSE, orig |-> Nil]
NoEcho == [st |-> 0, plan |-> VNilIf, s |-> Nil, dg |-> <<>>, back |-> VNilIf]
NoAux == [rt |-> NoRT, chain |-> FALSE, lastArmed |-> FALSE, lastObj |-> Nil, echo |-> NoEcho, memo |-> EmptyFn]

\* (whatever its flags say: a null / unknown object without values is an empty target as well)
IsEmptyOf(tv, at) == tv.k = "obj" /\ tv.at = at /\ DOMAIN tv.attrs = {}

\* at2 is obtained from at1 by removing attribute types at object levels
RECURSIVE SubTypeOf(_, _)
SubTypeOf(t2, t1) ==
  CASE t1.k = "obj" -> t2.k = "obj" /\ DOMAIN t2.at \subseteq DOMAIN t1.at /\ \A n \in DOMAIN t2.at : SubTypeOf(t2.at[n], t1.at[n])
    [] t1.k \in {"list", "map"} -> t2.k = t1.k /\ SubTypeOf(t2.et, t1.et)
    [] OTHER -> t2 = t1

\* e: event, W: properties wanted, M: built message, tt: schema type, x: [pobj, ptf, obj, tf, dg, pn, conv, hooks]
\* (pre / post states).  Returns [viol, evald, aux].
Judge(e, W, M, tt, aux, x) ==
  LET fresh == x.pobj = M.zero
      fromEmpty == IsEmptyOf(x.ptf, tt.at)
  IN
  CASE e = "SetObj" -> [viol |-> {}, evald |-> {}, aux |-> [aux EXCEPT !.rt = NoRT, !.lastArmed = FALSE, !.echo = NoEcho]]
    [] e = "FreshObj" -> [viol |-> {}, evald |-> {}, aux |-> [aux EXCEPT !.lastArmed = FALSE]]
    [] e = "NewEmpty" -> [viol |-> {}, evald |-> {}, aux |-> [aux EXCEPT !.rt = NoRT, !.chain = TRUE, !.lastArmed = FALSE, !.echo = NoEcho]]
    [] e = "LoadPlan" -> [viol |-> {}, evald |-> {},
                          aux |-> [aux EXCEPT !.rt = NoRT, !.chain = FALSE, !.lastArmed = FALSE, !.echo = [NoEcho EXCEPT !.st = 1, !.plan = x.tf]]]
    [] e = "LoadRaw" -> [viol |-> {}, evald |-> {}, aux |-> [aux EXCEPT !.rt = NoRT, !.chain = FALSE, !.lastArmed = FALSE, !.echo = NoEcho]]
    [] e = "CopyTo" ->
       LET ctx03 == [M |-> M, tt |-> tt, obj |-> x.pobj, tf |-> x.tf, dg |-> x.dg, pn |-> x.pn, conv |-> x.conv]
           refresh == aux.chain /\ ~fromEmpty /\ NoUnknown(x.ptf)
           ctx09 == [M |-> M, obj |-> x.pobj, before |-> x.ptf, after |-> x.tf, dg |-> x.dg, pn |-> x.pn]
           idem == aux.chain /\ aux.lastArmed /\ aux.lastObj = x.pobj
           echoing == aux.echo.st = 2 /\ x.ptf = aux.echo.plan /\ x.pobj = aux.echo.s /\ C08Plan(M, aux.echo.plan)
           reduced == x.ptf.k = "obj" /\ ~x.ptf.null /\ ~x.ptf.unk /\ DOMAIN x.ptf.attrs = {} /\ SubTypeOf(TObj(x.ptf.at), tt) /\ x.ptf.at # tt.at
           ctx06 == [M |-> M, obj |-> x.pobj, pre |-> x.ptf, tf |-> x.tf, dg |-> x.dg, pn |-> x.pn]
           ctx08 == [M |-> M, obj |-> x.pobj, plan |-> aux.echo.plan, back |-> x.tf, dg1 |-> aux.echo.dg, dg2 |-> x.dg, pn |-> x.pn]
       IN [viol |-> (IF fromEmpty /\ "C03" \in W THEN C03(ctx03) ELSE {})
                 \cup (IF fromEmpty /\ "C20" \in W THEN C20(ctx03) ELSE {})
                 \cup (IF fromEmpty /\ "C02" \in W /\ ~x.pn THEN C02To(M, x.pobj, x.tf) ELSE {})
                 \cup (IF fromEmpty /\ "C07" \in W /\ ~x.pn THEN C07To(M, x.pobj, x.tf) ELSE {})
                 \cup (IF refresh /\ "C09" \in W THEN C09(ctx09) ELSE {})
                 \cup (IF idem /\ "C09" \in W THEN C09Idem(ctx09) ELSE {})
                 \cup (IF echoing /\ "C08" \in W THEN C08To(ctx08) ELSE {})
                 \cup (IF reduced /\ "C06" \in W THEN C06To(ctx06) ELSE {})
                 \* "never panics for a non-nil source and target": whatever the target holds (a plan, a state, anything)
                 \* (targets whose attribute types were REPLACED are outside the property's quantifier: the implementation model
                 \* says what happens there - unchecked assertions on element types panic - and only drift is reported)
                 \cup (IF ~reduced /\ "C06" \in W /\ x.pn /\ x.ptf.k = "obj" /\ SubTypeOf(TObj(x.ptf.at), tt)
                       THEN {[c |-> "C06.to.nopanic", p |-> M.path, sig |-> PanicSig(M, x.pobj)]} ELSE {})
                 \cup (IF "C17" \in W /\ x.ptf.k = "obj" THEN C17To([M |-> M, obj |-> x.pobj, pre |-> x.ptf, tf |-> x.tf, hooks |-> x.hooks, dg |-> x.dg, pn |-> x.pn]) ELSE {}),
           evald |-> {p \in {"C03", "C20", "C07", "C02"} : fromEmpty /\ p \in W}
                 \cup {p \in {"C09"} : (refresh \/ idem) /\ p \in W}
                 \cup {p \in {"C08"} : echoing /\ p \in W}
                 \cup {p \in {"C06"} : p \in W /\ x.ptf.k = "obj" /\ SubTypeOf(TObj(x.ptf.at), tt)}
                 \cup {p \in {"C17"} : p \in W /\ HasCustom(M)},
           aux |-> [aux EXCEPT !.rt = IF fromEmpty /\ ~x.pn THEN [armed |-> TRUE, orig |-> x.pobj] ELSE NoRT,
                               \* the echo of a plan leaves a fully-known state as well (what a later refresh meets)
                               !.chain = (@ \/ echoing) /\ ~x.pn /\ ~HasError(x.dg),
                               !.lastArmed = ~x.pn, !.lastObj = x.pobj,
                               !.echo = IF echoing /\ ~x.pn THEN [@ EXCEPT !.st = 3, !.back = x.tf] ELSE NoEcho]]
    [] e = "CopyFrom" ->
       LET rtctx == [M |-> M, orig |-> aux.rt.orig, back |-> x.obj]
           rtOn == aux.rt.armed /\ fresh
           conforming == C05Input(M, x.ptf) /\ Conforms(x.ptf, tt)
           ctx05 == [M |-> M, tf |-> x.ptf, pre |-> x.pobj, obj |-> x.obj, dg |-> x.dg, pn |-> x.pn]
           key == Skeleton(x.ptf)
           res == NF(M, MaskUnmapped(M, x.obj))
           seen == conforming /\ key \in DOMAIN aux.memo
           pairViol == IF seen /\ ~x.pn /\ aux.memo[key].res # res
                       THEN RtDiff(IF aux.memo[key].tf = x.ptf THEN "C05.history_free" ELSE "C05.payload_free", M, M.zero, aux.memo[key].res, res)
                       ELSE {}
           echo1 == aux.echo.st = 1 /\ fresh /\ x.ptf = aux.echo.plan
           echo3 == aux.echo.st = 3 /\ fresh /\ x.ptf = aux.echo.back
           ctx08 == [M |-> M, s |-> aux.echo.s, s2 |-> x.obj, dg |-> x.dg, pn |-> x.pn]
       IN [viol |-> (IF rtOn /\ ~x.pn /\ "C04" \in W THEN C04(rtctx) ELSE {})
                 \cup (IF rtOn /\ ~x.pn /\ "C19" \in W THEN C19(rtctx) ELSE {})
                 \cup (IF rtOn /\ ~x.pn /\ "C02" \in W THEN C02From(M, x.ptf, x.obj) ELSE {})
                 \cup (IF rtOn /\ x.pn /\ "C04" \in W THEN {[c |-> "C04.roundtrip", p |-> M.path, sig |-> PanicSigFrom(M, x.pobj)]} ELSE {})
                 \cup (IF rtOn /\ x.pn /\ "C19" \in W THEN {[c |-> "C19.exact", p |-> M.path, sig |-> PanicSigFrom(M, x.pobj)]} ELSE {})
                 \cup (IF "C07" \in W /\ ~x.pn /\ conforming THEN C07From(M, x.ptf, x.obj) ELSE {})
                 \cup (IF "C05" \in W /\ conforming THEN C05(ctx05) \cup pairViol ELSE {})
                 \cup (IF "C06" \in W THEN C06From(ctx05) ELSE {})
                 \cup (IF "C08" \in W /\ echo3 THEN C08Redecode(ctx08) ELSE {})
                 \cup (IF "C17" \in W THEN C17From([M |-> M, tf |-> x.ptf, hooks |-> x.hooks, dg |-> x.dg, pn |-> x.pn]) ELSE {}),
           evald |-> {p \in {"C04", "C19", "C02"} : rtOn /\ p \in W}
                 \cup {p \in {"C07", "C05"} : conforming /\ p \in W}
                 \cup {p \in {"C06"} : p \in W}
                 \cup {p \in {"C08"} : echo3 /\ p \in W}
                 \cup {p \in {"C17"} : p \in W /\ HasCustom(M)},
           aux |-> [aux EXCEPT !.rt = NoRT, !.lastArmed = FALSE,
                               !.memo = IF conforming /\ ~seen /\ ~x.pn /\ "C05" \in W THEN Put(@, key, [res |-> res, tf |-> x.ptf]) ELSE @,
                               !.echo = IF echo1 /\ ~x.pn /\ C08Plan(M, aux.echo.plan) THEN [@ EXCEPT !.st = 2, !.s = x.obj, !.dg = x.dg] ELSE NoEcho]]
    [] OTHER -> [viol |-> {}, evald |-> {}, aux |-> aux]
=============================================================================
