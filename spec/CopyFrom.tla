------------------------------ MODULE CopyFrom ------------------------------
(***************************************************************************)
(* Impl semantics of the emitted Copy<T>FromTerraform.  Operator names     *)
(* follow gen_copy_from.go:                                                *)
(*   FromMsg / FromFields   Generate / GenerateFields (oneof holders reset *)
(*                          first)                                         *)
(*   FromPrimBody           genPrimitiveBody                               *)
(*   FromPrimField          genPrimitive (plain | oneof | optional embed)  *)
(*   FromObjField           genObject                                      *)
(*   FromCollField          genPrimitiveListOrMap / genObjectListOrMap     *)
(*                          with genListOrMapIterator                      *)
(*   FromCustomField        genCustom                                      *)
(***************************************************************************)
EXTENDS CopyTo

RECURSIVE SetPath(_, _, _)
SetPath(obj, gp, val) ==
  IF gp = <<>> THEN val
  ELSE IF obj.t = "ptr" THEN Ptr(SetPath(obj.p, gp, val))
  ELSE St([obj.f EXCEPT ![Head(gp)] = SetPath(@, Tail(gp), val)])

\* can obj.<promoted field> be assigned without a nil dereference?
CanSet(obj, gp) == Deref(GetPath(obj, Front(gp))).t = "st"

Lookup(tf, a) == IF ~tf.attrsnil /\ a \in DOMAIN tf.attrs THEN tf.attrs[a] ELSE [k |-> "missing"]

WantKind(F) ==
  CASE F.kind = "prim" -> "prim"
    [] F.kind = "obj" -> "obj"
    [] F.kind \in {"primlist", "objlist"} -> "list"
    [] OTHER -> "map"

\* the comma-ok assertion a.(ValueType)
TypedAs(F, a) == a.k = WantKind(F) /\ (F.kind = "prim" => a.ty = F.tfty)

\* genPrimitiveBody: var t T; if !v.Null && !v.Unknown { t = cast(v.Value) }
FromPrimBody(F, v) ==
  IF Known(v) THEN (IF F.nullable THEN Ptr(Sc(v.v)) ELSE Sc(v.v))
  ELSE (IF F.nullable THEN Nil ELSE Sc(ZeroScalar(F.cls)))

RECURSIVE FromFields(_, _, _, _)

\* oneof holders are reset before the fields are read: those the message declares itself; those of messages embedded
\* by value only when the deviation embeddedOneofNotReset is repaired
RECURSIVE ResetHolderPaths(_, _, _)
ResetHolderPaths(obj, hs, i) ==
  IF i > Len(hs) THEN obj
  ELSE ResetHolderPaths(IF CanSet(obj, hs[i]) THEN SetPath(obj, hs[i], Nil) ELSE obj, hs, i + 1)
ResetHolders(M, obj) ==
  IF Q("embeddedOneofNotReset")
  THEN St([n \in DOMAIN obj.f |-> IF n \in Range(M.oneofs) THEN Nil ELSE obj.f[n]])
  ELSE ResetHolderPaths(obj, M.ohold, 1)

\* nullable embedded messages whose children are all primitive are reset as well (resettableEmbeds)
EmbedIdx(M) == {i \in DOMAIN M.fields : M.fields[i].embed # ""}
ResettableParents(M) ==
  {pp \in {Front(M.fields[i].gopath) : i \in EmbedIdx(M)} :
     \A i \in EmbedIdx(M) : Front(M.fields[i].gopath) = pp => M.fields[i].kind = "prim"}
RECURSIVE ResetPaths(_, _)
ResetPaths(obj, pps) ==
  IF pps = <<>> THEN obj
  ELSE ResetPaths(IF CanSet(obj, Head(pps)) THEN SetPath(obj, Head(pps), Nil) ELSE obj, Tail(pps))
ResetEmbeds(M, obj) == IF Q("embedNeverReset") THEN obj ELSE ResetPaths(obj, SetToSeq(ResettableParents(M)))

\* body of a message: holders (and resettable embedded parents) reset, then the fields
FromBody(M, tf, obj) ==
  FromFields(M, 1, tf, [obj |-> ResetEmbeds(M, ResetHolders(M, obj)), dg |-> <<>>, pn |-> FALSE])

FromPrimField(F, tf, acc) ==
  LET a == Lookup(tf, F.attr)
      t == FromPrimBody(F, a)
  IN IF F.placeholder THEN acc   \* GenerateFields skips the placeholder of a message without fields
     ELSE IF a.k = "missing" THEN [acc EXCEPT !.dg = Append(@, Diag("readMissing", F.path))]
     ELSE IF ~TypedAs(F, a) THEN [acc EXCEPT !.dg = Append(@, Diag("readConversion", F.path))]
     ELSE IF F.oneof # "" THEN
        \* do not set an empty oneof value: it would override a branch set by another attribute
        (IF Known(a) THEN [acc EXCEPT !.obj = SetPath(@, F.opath, One(F.name, t))] ELSE acc)
     ELSE IF F.embed # "" THEN
        (IF Known(a)
         THEN LET pp == Front(F.gopath)
                  o1 == IF GetPath(acc.obj, pp).t = "nil" THEN SetPath(acc.obj, pp, Ptr(F.pzero)) ELSE acc.obj
              IN [acc EXCEPT !.obj = SetPath(o1, F.gopath, t)]
         ELSE acc)
     ELSE [acc EXCEPT !.obj = SetPath(@, F.gopath, t)]

\* genObject
FromObjField(F, tf, acc) ==
  LET a == Lookup(tf, F.attr)
      M == SubOf(F)
      r == FromBody(M, a, M.zero)
      filled == IF M.empty THEN M.zero ELSE r.obj
  IN IF a.k = "missing" THEN [acc EXCEPT !.dg = Append(@, Diag("readMissing", F.path))]
     ELSE IF ~TypedAs(F, a) THEN [acc EXCEPT !.dg = Append(@, Diag("readConversion", F.path))]
     ELSE IF F.oneof # "" THEN
        (IF Known(a)
         THEN [obj |-> SetPath(acc.obj, F.opath, One(F.name, Ptr(filled))),
               dg |-> IF M.empty THEN acc.dg ELSE acc.dg \o r.dg,
               pn |-> ~M.empty /\ r.pn]
         ELSE acc)
     ELSE IF ~CanSet(acc.obj, F.gopath) THEN [acc EXCEPT !.pn = TRUE]
     ELSE IF ~Known(a) THEN [acc EXCEPT !.obj = SetPath(@, F.gopath, IF F.nullable THEN Nil ELSE M.zero)]
     ELSE IF M.empty THEN
        \* the allocation sits inside `if !m.IsEmpty`
        [acc EXCEPT !.obj = SetPath(@, F.gopath,
             IF F.nullable THEN (IF Q("emptyMsgNotAlloc") THEN Nil ELSE Ptr(M.zero)) ELSE M.zero)]
     ELSE [obj |-> SetPath(acc.obj, F.gopath, IF F.nullable THEN Ptr(r.obj) ELSE r.obj),
           dg |-> acc.dg \o r.dg, pn |-> r.pn]

\* one element: [ok, v, dg, pn]; ok = FALSE when the element has the wrong Go type
FromElem(F, e) ==
  IF F.kind \in {"primlist", "primmap"} THEN
     IF e.k = "prim" /\ e.ty = F.tfty THEN [ok |-> TRUE, v |-> FromPrimBody(F, e), dg |-> <<>>, pn |-> FALSE]
     ELSE [ok |-> FALSE, v |-> Nil, dg |-> <<Diag("readConversion", F.path)>>, pn |-> FALSE]
  ELSE
     LET M == SubOf(F)
         r == FromBody(M, e, M.zero)
     IN IF e.k # "obj" THEN [ok |-> FALSE, v |-> Nil, dg |-> <<Diag("readConversion", F.path)>>, pn |-> FALSE]
        ELSE IF ~Known(e) THEN [ok |-> TRUE, v |-> IF F.nullable THEN Nil ELSE M.zero, dg |-> <<>>, pn |-> FALSE]
        ELSE IF M.empty THEN [ok |-> TRUE, v |-> IF F.nullable THEN Ptr(M.zero) ELSE M.zero, dg |-> <<>>, pn |-> FALSE]
        ELSE [ok |-> TRUE, v |-> IF F.nullable THEN Ptr(r.obj) ELSE r.obj, dg |-> r.dg, pn |-> r.pn]

ElemZero(F) ==
  IF F.kind \in {"primlist", "primmap"} THEN (IF F.nullable THEN Nil ELSE Sc(ZeroScalar(F.cls)))
  ELSE (IF F.nullable THEN Nil ELSE SubOf(F).zero)

\* genListOrMapIterator: obj.F = make(T, len(v.Elems)) BEFORE the null guard
FromCollField(F, tf, acc) ==
  LET a == Lookup(tf, F.attr)
      islist == F.kind \in {"primlist", "objlist"}
  IN IF a.k = "missing" THEN [acc EXCEPT !.dg = Append(@, Diag("readMissing", F.path))]
     ELSE IF ~TypedAs(F, a) THEN [acc EXCEPT !.dg = Append(@, Diag("readConversion", F.path))]
     ELSE IF ~CanSet(acc.obj, F.gopath) THEN [acc EXCEPT !.pn = TRUE]
     ELSE IF islist THEN
        LET n == IF Known(a) \/ Q("makeBeforeNullGuard") THEN Len(a.elems) ELSE 0
            rs == [i \in 1..n |-> FromElem(F, a.elems[i])]
            es == IF Known(a) THEN [i \in 1..n |-> IF rs[i].ok THEN rs[i].v ELSE ElemZero(F)]
                  ELSE Fill(n, ElemZero(F))
        IN [obj |-> SetPath(acc.obj, F.gopath, SeqV(es)),
            dg |-> IF Known(a) THEN acc.dg \o ConcatDg(rs, [i \in 1..n |-> i]) ELSE acc.dg,
            pn |-> Known(a) /\ \E i \in 1..n : rs[i].pn]
     ELSE
        LET keys == IF Known(a) THEN DOMAIN a.mels ELSE {}
            rs == [key \in keys |-> FromElem(F, a.mels[key])]
            good == {key \in keys : rs[key].ok}
        IN [obj |-> SetPath(acc.obj, F.gopath, MapV([key \in good |-> rs[key].v])),
            dg |-> acc.dg \o ConcatDg(rs, SetToSeq(keys)),
            pn |-> \E key \in keys : rs[key].pn]

\* genCustom: missing attribute reported, then the user's CopyFrom<S> is called regardless; the hook is
\* uninterpreted here (the field is masked in comparisons)
FromCustomField(F, tf, acc) ==
  IF Lookup(tf, F.attr).k = "missing" THEN [acc EXCEPT !.dg = Append(@, Diag("readMissing", F.path))] ELSE acc

FromField(F, tf, acc) ==
  CASE F.kind = "prim" -> FromPrimField(F, tf, acc)
    [] F.kind = "obj" -> FromObjField(F, tf, acc)
    [] F.kind = "custom" -> FromCustomField(F, tf, acc)
    [] OTHER -> FromCollField(F, tf, acc)

FromFields(M, i, tf, acc) ==
  IF i > Len(M.fields) \/ acc.pn THEN acc
  ELSE FromFields(M, i + 1, tf, FromField(M.fields[i], tf, acc))

\* Copy<T>FromTerraform(ctx, tf, obj)
FromMsg(M, tf, obj) == FromBody(M, tf, obj)
=============================================================================
