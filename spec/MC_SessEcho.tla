---- MODULE MC_SessEcho ----
(* Family "echo": LoadPlan p ; FreshObj ; CopyFrom ; CopyTo ; FreshObj ; CopyFrom for every plan inside the quantifier of C08. *)
EXTENDS Shapes, TLC, Json
CONSTANTS MCDeep, MCLong
VARIABLES sh, M, Mi, obj, tf, dg, pn, pc, hist, viol, aux
MCShapes == AllSessionShapes
MCScript == IF MCLong THEN <<"LoadPlan", "FreshObj", "CopyFrom", "CopyTo", "FreshObj", "CopyFrom">> ELSE <<"LoadPlan", "FreshObj", "CopyFrom", "CopyTo", "FreshObj", "CopyFrom">>
MCProps == {"C08"}
ASSUME PrintT("SHAPES " \o ToJson(MCShapes))
INSTANCE Session WITH Shapes <- MCShapes, Script <- MCScript, Deep <- MCDeep, Props <- MCProps, ObjMode <- "all", RawMode <- "plans", EmptyMode <- "plain"
====
