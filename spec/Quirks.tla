------------------------------- MODULE Quirks -------------------------------
(***************************************************************************)
(* Named deviations of the implementation from the contract.  The Impl     *)
(* operators consult this set; it lists what the CURRENT tree of           *)
(* protoc-gen-terraform still does (known findings).  Model configurations *)
(* may override it (CONSTANT Quirks <- ...) to re-create the behaviour of  *)
(* the tree before a "fix:" commit and watch TLC find the counterexample.  *)
(***************************************************************************)
AllQuirks == {
  "staleMapKeys",        \* CopyTo never removes map keys that left the source
  "staleOnNilSource",    \* CopyTo keeps all old list / map elements when the source is nil
  "zeroBeforeEmbedGuard",\* CopyTo evaluates `field == zero` through a nil optional-embed parent: panic
  "embedNeverReset",     \* CopyFrom never resets a nullable embedded parent
  "makeBeforeNullGuard", \* CopyFrom sizes lists by len(Elems) even when the list is null / unknown
  "emptyMsgNotAlloc",    \* CopyFrom leaves a nullable empty message nil although the attribute is known
  "placeholderAssigned", \* CopyFrom emits obj.active = t for empty root / list / map element messages
  "oneofResetDeclOrder", \* oneof reset statements in declaration order even with sort on
  "embedNonPrimNilParent",\* list / map / message children of a nil optional-embed parent: panic
  "embedPathReset",      \* path of an embedded field is the message NAME, not the message path
  "mapBytesType",        \* map<string,bytes>: value Go type cut after the last ']'
  "embeddedOneofNotReset"\* CopyFrom resets only the oneof groups the message declares itself, not those of embedded messages
}

\* repaired by "fix:" commits in /repo (see /verif/known_findings.json, section fixed)
FixedQuirks == {"zeroBeforeEmbedGuard", "emptyMsgNotAlloc", "makeBeforeNullGuard", "embedNeverReset",
                "staleMapKeys", "staleOnNilSource", "placeholderAssigned", "mapBytesType", "oneofResetDeclOrder",
                "embeddedOneofNotReset"}

\* what the current tree does
Quirks == AllQuirks \ FixedQuirks

Q(x) == x \in Quirks
=============================================================================
