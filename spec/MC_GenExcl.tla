---- MODULE MC_GenExcl ----
(* Family "genexcl": exclusion is surgical: the same vectors through the base and through every exclusion variant, compared line by line with the excluded occurrences masked; the excluded Go field keeps its prior value.  Serves C11. *)
EXTENDS GenShapes, TLC, Json
CONSTANTS MCDeep, MCLong
VARIABLES sh, M, Mi, obj, tf, dg, pn, pc, hist, viol, aux
MCShapes == GenExclShapes
MCProps == {"C11", "C05"}
MCScript == <<"SetObj", "NewEmpty", "CopyTo", "SetPrior", "CopyFrom">>
ASSUME PrintT("SHAPES " \o ToJson(MCShapes))
INSTANCE Session WITH Shapes <- MCShapes, Script <- MCScript, Deep <- MCDeep, Props <- MCProps, ObjMode <- "all", RawMode <- "plans", EmptyMode <- "plain"
====
