---- MODULE MC_SessRefresh ----
(* Family "refresh": SetObj v1 ; NewEmpty ; CopyTo ; SetObj v2 ; CopyTo ; CopyTo (thorough: ; SetPrior v3 ; CopyTo ; CopyTo, v3 being the zero value or a value with everything set; the value pool stays the quick one - with the deep pool the family has 3.5 million trace lines).  Serves C09. *)
EXTENDS Shapes, TLC, Json
CONSTANTS MCDeep, MCLong
VARIABLES sh, M, Mi, obj, tf, dg, pn, pc, hist, viol, aux
MCShapes == RefreshShapes
MCScript == IF MCLong THEN <<"SetObj", "NewEmpty", "CopyTo", "SetObj", "CopyTo", "CopyTo", "SetPrior", "CopyTo", "CopyTo">> ELSE <<"SetObj", "NewEmpty", "CopyTo", "SetObj", "CopyTo", "CopyTo">>
MCProps == {"C09"}
ASSUME PrintT("SHAPES " \o ToJson(MCShapes))
INSTANCE Session WITH Shapes <- MCShapes, Script <- MCScript, Deep <- MCDeep, Props <- MCProps, ObjMode <- "all", RawMode <- "plans", EmptyMode <- "plain"
====
