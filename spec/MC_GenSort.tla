---- MODULE MC_GenSort ----
(* Family "gensort": permuted declaration orders of fields (with their oneof groups and an embed) and of messages; sort on: generated file byte-identical (alternative renderings of one run); sort off: schema equal and behaviours paired line by line.  Serves C15. *)
EXTENDS GenShapes, TLC, Json
CONSTANTS MCDeep, MCLong
VARIABLES sh, M, Mi, obj, tf, dg, pn, pc, hist, viol, aux
MCShapes == GenSortShapes(MCLong)
MCProps == {"C15"}
MCScript == <<"SetObj", "NewEmpty", "CopyTo", "FreshObj", "CopyFrom", "SetPrior", "CopyFrom">>
ASSUME PrintT("SHAPES " \o ToJson(MCShapes))
INSTANCE Session WITH Shapes <- MCShapes, Script <- MCScript, Deep <- MCDeep, Props <- MCProps, ObjMode <- "all", RawMode <- "plans", EmptyMode <- "plain"
====
