---- MODULE MC_GenRun ----
(* The generator run machine over the requests of the selection, whole-or-nothing and configuration families:
   every interleaving of Dump (map iteration order) is explored; invariants C01 C12 C14 C16 C18 at the design level. *)
EXTENDS GenShapes, TLC
VARIABLES rq, phase, cursor, messages, warned, processing, out, log
MCRequests == LET S == GenSelectShapes(FALSE) \o GenWholeShapes(FALSE) \o GenConfigShapes(FALSE)
              IN [i \in DOMAIN S |-> [d |-> S[i].d, cfg |-> S[i].cfg]]
INSTANCE GenRun WITH Requests <- MCRequests
====
