------------------------------- MODULE Trace -------------------------------
(***************************************************************************)
(* Trace validation    (DESIGN.md §5.5).  The driver's ndjson trace of REAL   *)
(* executions is replayed against the specification: every line must be    *)
(* an instance of a session action, the recorded post-state is bound to    *)
(* the variables, every applicable Contract clause is evaluated on the     *)
(* real pre/post states, and the real post-state is compared with the      *)
(* Impl model's prediction (drift).  Behaviours are concatenated with      *)
(* Reset lines, which rebuild M from the abstract descriptor with the      *)
(* specification's own generator model.                                    *)
(***************************************************************************)
EXTENDS Judge, RunModel, Json, IOUtils, TLCExt

TraceLog == ndJsonDeserialize(IOEnv.VERIF_TRACE)

VARIABLES l,      \* next line to consume
          bid,    \* behaviour id
          shp,    \* shape id of the behaviour (relational memory is kept per shape)
          ok,     \* behaviour has a registered (generated + compiled) root type
          M,      \* built message of the root: the documented mapping (Contract)
          Mi,     \* built message with the named deviations of the current tree (Impl model, drift only)
          tt,     \* Terraform type of the REAL schema
          ev,     \* properties to evaluate for this behaviour
          obj, tf,\* the session state: Go struct value and Terraform object (REAL, as recorded)
          aux,    \* history for the relational clauses (Judge.tla)
          gm,     \* group memory: [grp, s: key |-> string, sch: key |-> schema] (same key => same value in a group)
          pm,     \* pair memory: key |-> sequence of recorded post-states of the base behaviour
          pr      \* pairing of the current behaviour: [key, role, clause, maskattrs, maskfields, step]

vars == <<l, bid, shp, ok, M, Mi, tt, ev, obj, tf, aux, gm, pm, pr>>

NoGM == [grp |-> "", s |-> EmptyFn, sch |-> EmptyFn]
NoPR == [key |-> "", role |-> "", clause |-> "", prop |-> "", occ |-> <<>>, step |-> 0]

Line == TraceLog[l]
NilObject == VObj(FALSE, FALSE, EmptyFn, EmptyFn, TRUE)

DgSet(dg) == {[sev |-> dg[i].sev, kind |-> dg[i].kind, path |-> dg[i].path] : i \in DOMAIN dg}

\* custom attributes hold whatever the user's hook returned: masked before comparing with the model
RECURSIVE MaskTf(_, _)
MaskTf(Mm, tv) ==
  IF tv.k # "obj" THEN tv
  ELSE [tv EXCEPT !.attrs = [a \in DOMAIN tv.attrs |->
          IF a \notin AttrNames(Mm) THEN tv.attrs[a]
          ELSE LET F == FieldByAttr(Mm, a)
                   x == tv.attrs[a]
               IN CASE F.kind = "custom" -> HookValue
                    [] F.kind = "obj" -> MaskTf(SubOf(F), x)
                    [] F.kind = "objlist" /\ x.k = "list" -> [x EXCEPT !.elems = [i \in DOMAIN x.elems |-> MaskTf(SubOf(F), x.elems[i])]]
                    [] F.kind = "objmap" /\ x.k = "map" -> [x EXCEPT !.mels = [key \in DOMAIN x.mels |-> MaskTf(SubOf(F), x.mels[key])]]
                    [] OTHER -> x]]

\* one record per judged line: which properties had their antecedent satisfied here (evald), which
\* clause instances failed on the REAL state (viol), whether the real post-state differs from the model
ReportE(viol, drift, what, evald) ==
  /\ TLCSet(2, l)
  /\ TLCSet(3, TLCGet(3) + 1)
  /\ IF viol # {} \/ drift \/ evald # {}
     THEN PrintT(ToJson([l |-> l, id |-> IF Line.ev = "Reset" THEN Line.id ELSE bid, ev |-> Line.ev, viol |-> viol,
                         drift |-> drift, what |-> what, evald |-> evald]))
     ELSE TRUE

Wanted == {ev[i] : i \in DOMAIN ev}

Init ==
  /\ l = 1 /\ bid = "" /\ shp = "" /\ ok = FALSE /\ M = NoBuilt /\ Mi = NoBuilt /\ tt = TNone /\ ev = <<>>
  /\ obj = Nil /\ tf = NilObject /\ aux = NoAux /\ gm = NoGM /\ pm = EmptyFn /\ pr = NoPR
  /\ TLCSet(2, 0) /\ TLCSet(3, 0)

IsEvent(e) == l <= Len(TraceLog) /\ Line.ev = e /\ l' = l + 1

SchemaTT(schema) == TObj([n \in DOMAIN schema.attrs |-> schema.attrs[n].type])

\* ---- behaviours paired line by line (same vectors through two generated variants)
\* occurrences of the field addressed by key (full path or Message.field): attribute path and Go field path
RECURSIVE Occ(_, _, _, _)
Occ(Mm, key, ap, gp) ==
  UNION { LET F == Mm.fields[i]
              hit == F.path = key \/ F.tn = key
          IN (IF hit THEN {[ap |-> ap \o <<F.attr>>, gp |-> gp \o F.gopath]} ELSE {})
             \cup (IF F.msg # NoMsg /\ ~hit THEN Occ(SubOf(F), key, ap \o <<F.attr>>, gp \o F.gopath) ELSE {})
        : i \in DOMAIN Mm.fields }

RECURSIVE DropT(_, _)
DropT(t, path) ==
  CASE t.k = "obj" -> IF Head(path) \notin DOMAIN t.at THEN t
                      ELSE IF Len(path) = 1 THEN [t EXCEPT !.at = Drop(@, Head(path))]
                      ELSE [t EXCEPT !.at = [@ EXCEPT ![Head(path)] = DropT(@, Tail(path))]]
    [] t.k \in {"list", "map"} -> [t EXCEPT !.et = DropT(@, path)]
    [] OTHER -> t
RECURSIVE DropV(_, _)
DropV(tv, path) ==
  CASE tv.k = "obj" ->
         LET t1 == IF Head(path) \notin DOMAIN tv.at THEN tv.at
                   ELSE IF Len(path) = 1 THEN Drop(tv.at, Head(path)) ELSE [tv.at EXCEPT ![Head(path)] = DropT(@, Tail(path))]
             a1 == IF Head(path) \notin DOMAIN tv.attrs THEN tv.attrs
                   ELSE IF Len(path) = 1 THEN Drop(tv.attrs, Head(path)) ELSE [tv.attrs EXCEPT ![Head(path)] = DropV(@, Tail(path))]
         IN [tv EXCEPT !.at = t1, !.attrs = a1]
    [] tv.k = "list" -> [tv EXCEPT !.elems = [i \in DOMAIN tv.elems |-> DropV(tv.elems[i], path)], !.et = DropT(@, path)]
    [] tv.k = "map" -> [tv EXCEPT !.mels = [key \in DOMAIN tv.mels |-> DropV(tv.mels[key], path)], !.et = DropT(@, path)]
    [] OTHER -> tv
RECURSIVE ZeroG(_, _)
ZeroG(g, path) ==
  CASE g.t = "st" -> IF Head(path) \notin DOMAIN g.f THEN g
                     ELSE IF Len(path) = 1 THEN St([g.f EXCEPT ![Head(path)] = Nil])
                     ELSE St([g.f EXCEPT ![Head(path)] = ZeroG(@, Tail(path))])
    [] g.t = "ptr" -> Ptr(ZeroG(g.p, path))
    [] g.t = "seq" -> SeqV([i \in DOMAIN g.e |-> ZeroG(g.e[i], path)])
    [] g.t = "map" -> MapV([key \in DOMAIN g.m |-> ZeroG(g.m[key], path)])
    [] g.t = "one" -> One(g.b, ZeroG(g.w, path))
    [] OTHER -> g
RECURSIVE PresentAt(_, _)
PresentAt(tv, path) ==
  CASE tv.k = "obj" -> Head(path) \in DOMAIN tv.attrs /\ (Len(path) = 1 \/ PresentAt(tv.attrs[Head(path)], Tail(path)))
    [] tv.k = "list" -> \E i \in DOMAIN tv.elems : PresentAt(tv.elems[i], path)
    [] tv.k = "map" -> \E key \in DOMAIN tv.mels : PresentAt(tv.mels[key], path)
    [] OTHER -> FALSE

RECURSIVE MaskSnap(_, _)
MaskSnap(sn, occ) ==
  IF occ = <<>> THEN sn
  ELSE MaskSnap([sn EXCEPT !.obj = ZeroG(@, Head(occ).gp), !.tf = DropV(@, Head(occ).ap)], Tail(occ))

RawSnap == [obj |-> Line.obj, tf |-> Line.tf, dg |-> DgSet(Line.diags), pn |-> Line.panic # ""]

\* ---- relational clauses over the runs of a group: the same key must carry the same value
\* entries this run contributes: <<key, value, clause>>
GroupEntries(meta, gen, schema, d, cfg) ==
  UNION {
    LET gc == meta.gchecks[i]
    IN CASE gc.k = "fn" -> {<<"fn:" \o gen.funcs[j].name, gen.funcs[j].sha, gc.c>> : j \in {x \in DOMAIN gen.funcs : gen.funcs[x].api}}
         [] gc.k = "sha" -> {<<"sha", gen.sha, gc.c>>}
         [] gc.k = "content" -> {<<"content", gen.contentsha, gc.c>>}
         [] OTHER -> {}
    : i \in DOMAIN meta.gchecks }

GroupViol(mem, entries) == {VG(e[3], e[1]) : e \in {x \in entries : x[1] \in DOMAIN mem.s /\ mem.s[x[1]] # x[2]}}
RECURSIVE PutAll(_, _)
PutAll(f, es) == IF es = {} THEN f ELSE LET e == CHOOSE x \in es : TRUE IN PutAll(IF e[1] \in DOMAIN f THEN f ELSE Put(f, e[1], e[2]), es \ {e})

\* GenSchema<S>(ctx, attribute) is called once per custom field (at any nesting level) with the description and flags the field would
\* otherwise get (and no type of the generator's own), and its result is the schema entry
RECURSIVE C17Schema(_, _, _)
C17Schema(Mm, hooks, real) ==
  UNION {
    LET F == Mm.fields[i]
        calls == CallsOf(hooks, "GenSchema", F.suffix)
        plain == [AttrModel([F EXCEPT !.kind = "prim"]) EXCEPT !.type = TNone]
    IN IF F.kind \in {"obj", "objlist", "objmap"} THEN
          (IF F.attr \in DOMAIN real /\ real[F.attr].mode # "none" THEN C17Schema(SubOf(F), hooks, real[F.attr].sub) ELSE {})
       ELSE IF F.kind # "custom" THEN {}
       ELSE IF Cardinality(calls) # 1 THEN {V("C17.schema_call", F, "not called exactly once")}
       ELSE LET h == hooks[CHOOSE k \in calls : TRUE]
            IN (IF RealAttr(h.attr) # [x \in DOMAIN RealAttr(h.attr) |-> plain[x]] \/ ~h.attr.descclean
                THEN {V("C17.schema_call", F, "attribute passed to the hook")} ELSE {})
               \cup (IF F.attr \notin DOMAIN real \/ real[F.attr].descw # <<"hook:" \o F.suffix>> \o plain.descw
                     THEN {V("C17.schema_call", F, "hook result is not the schema entry")} ELSE {})
    : i \in DOMAIN Mm.fields }

SchemaChecks(meta) == {meta.gchecks[i].c : i \in {j \in DOMAIN meta.gchecks : meta.gchecks[j].k = "schema"}}

TraceReset ==
  /\ IsEvent("Reset")
  /\ LET meta == Line.meta
         d == meta.d
         cfg == meta.cfg
         gen == meta.gen
         W == {meta.eval[i] : i \in DOMAIN meta.eval}
         b == BuildRoot(d, cfg, meta.root)
         reg == Line.registered /\ b.ok
         mem == IF meta.group # "" /\ meta.group = gm.grp THEN gm ELSE [NoGM EXCEPT !.grp = meta.group]
         entries == IF meta.group = "" THEN {} ELSE GroupEntries(meta, gen, Line.schema, d, cfg)
         skey == "schema:" \o meta.root
         schViol == IF meta.group # "" /\ reg /\ SchemaChecks(meta) # {} /\ skey \in DOMAIN mem.sch /\ mem.sch[skey] # Line.schema
                    THEN {VG(c, meta.root) : c \in SchemaChecks(meta)} ELSE {}
         sd == IF reg THEN SchemaDiff(b.m, Line.schema.attrs) ELSE {}
         viol == (IF "C01" \in W THEN C01Run(d, cfg, gen) ELSE {})
            \cup (IF "C12" \in W THEN C12Exact(d, cfg, gen) ELSE {})
            \cup (IF "C18" \in W THEN C18Run(d, cfg, gen) ELSE {})
            \cup (IF "C16" \in W THEN C16Fault(cfg, gen) ELSE {})
            \cup (IF "C13" \in W THEN C13Run(d, cfg, gen) ELSE {})
            \cup (IF "C02" \in W THEN C02Of(sd) ELSE {})
            \cup (IF "C10" \in W THEN C10Of(sd) ELSE {})
            \cup (IF "C11" \in W THEN {[x EXCEPT !.sig = x.c \o " " \o @, !.c = "C11.only_addressed"] : x \in sd} ELSE {})
            \cup (IF "C17" \in W /\ reg THEN C17Schema(b.m, Line.hooks, Line.schema.attrs) ELSE {})
            \cup (IF "C18" \in W THEN {[x EXCEPT !.sig = x.c \o " " \o @, !.c = "C18.exclude_restores"] : x \in sd} ELSE {})
            \cup (IF gen.exit = 0 /\ Len(gen.alts) = Len(cfg.alts) THEN AltViol(cfg, gen) ELSE {})
            \cup GroupViol(mem, entries) \cup schViol
     IN /\ bid' = Line.id
        /\ shp' = meta.shape
        /\ ok' = reg
        /\ M' = b.m
        /\ Mi' = BuildRootImpl(d, cfg, meta.root).m
        /\ tt' = SchemaTT(Line.schema)
        /\ ev' = meta.eval
        /\ obj' = b.m.zero
        /\ tf' = NilObject
        \* pairwise memory (C05) survives from behaviour to behaviour of the same shape
        /\ aux' = IF meta.shape = shp THEN [NoAux EXCEPT !.memo = aux.memo] ELSE NoAux
        /\ gm' = [mem EXCEPT !.s = PutAll(@, {<<e[1], e[2]>> : e \in entries}),
                             !.sch = IF reg /\ SchemaChecks(meta) # {} /\ skey \notin DOMAIN @ THEN Put(@, skey, Line.schema) ELSE @]
        \* the harness writes a base behaviour immediately before its variants: only one base is remembered
        /\ pm' = IF meta.pair.role = "base" \/ meta.group = "" \/ meta.group # gm.grp THEN EmptyFn ELSE pm
        /\ pr' = [key |-> meta.pair.key, role |-> meta.pair.role, clause |-> meta.pair.clause, prop |-> meta.pair.prop,
                  occ |-> IF meta.pair.exclkey = "" THEN <<>>
                          ELSE LET bb == BuildRoot(d, [cfg EXCEPT !.exclude = <<>>], meta.root)
                               IN IF bb.ok THEN SetToSeq(Occ(bb.m, meta.pair.exclkey, <<>>, <<>>)) ELSE <<>>,
                  step |-> 0]
        /\ ReportE(viol,
                   \/ (reg /\ SchemaTT(Line.schema) # BuildRootImpl(d, cfg, meta.root).m.tt)
                   \* the observed run against the run machine (RunModel.tla / GenRun.tla): exit status, order of the files processed,
                   \* warnings, order of the emitted functions, package clause
                   \/ LET r == RunOut(d, cfg)
                          topf == SelectSeq(gen.funcs, LAMBDA f : f.api)
                      IN \/ (gen.exit = 0) # (r.exit = 0)
                         \/ (r.exit = 0 /\ (gen.processing # r.processing \/ gen.warned # r.warned \/ gen.package # r.package
                                             \/ [i \in DOMAIN topf |-> topf[i].name] # r.funcs)),
                   "run / schema type vs model",
                   {p \in {"C01", "C12", "C18", "C16", "C13"} : p \in W} \cup {p \in {"C02", "C10", "C11", "C17"} : p \in W /\ reg}
                   \cup {meta.gchecks[i].p : i \in DOMAIN meta.gchecks}
                   \cup {p \in {"C14", "C15", "C16"} : p \in W /\ cfg.alts # <<>>})

\* every other line: an action of the session machine whose post-state is the RECORDED one
TraceStep(e) ==
  /\ IsEvent(e) /\ ok
  /\ obj' = Line.obj /\ tf' = Line.tf
  /\ UNCHANGED <<bid, shp, ok, M, Mi, tt, ev, gm>>
  /\ LET pn == Line.panic # ""
         snap == RawSnap
         k == pr.step + 1
         paired == pr.key # "" /\ pr.role = "variant" /\ pr.key \in DOMAIN pm /\ k <= Len(pm[pr.key])
         \* after a panic the partially written state is unspecified: two panicking calls agree
         norm(sn) == IF sn.pn THEN [pn |-> TRUE] ELSE MaskSnap(sn, pr.occ)
         \* signature of a pair difference: one side panicked through the nil parent of a nullable embed with non-scalar children
         \* which was nil before this CopyFrom
         pairSig == IF paired /\ e = "CopyFrom" /\ pm[pr.key][k].pn # snap.pn
                       /\ (\E i \in DOMAIN M.fields : M.fields[i].pmixed /\ ParentTrig(M.fields[i], obj) # "")
                    THEN "panic-differs/CopyFrom/embedmixed/parent=nil" ELSE ""
         pairViol == (IF paired /\ norm(pm[pr.key][k]) # norm(snap) THEN {[VG(pr.clause, pr.key) EXCEPT !.sig = pairSig]} ELSE {})
                     \* an excluded field has no attribute anywhere in what CopyTo writes
                     \cup (IF paired /\ e = "CopyTo" /\ \E i \in DOMAIN pr.occ : PresentAt(Line.tf, pr.occ[i].ap)
                           THEN {VG("C11.excl.to_absent", pr.key)} ELSE {})
         pairEval == IF paired THEN {pr.prop} ELSE {}
         j == Judge(e, Wanted, M, tt, aux, [pobj |-> obj, ptf |-> tf, obj |-> Line.obj, tf |-> Line.tf, dg |-> Line.diags, pn |-> pn, conv |-> Line.conv, hooks |-> Line.hooks])
         toR == ToMsg(Mi, obj, tf)
         fromR == FromMsg(Mi, tf, obj)
         drift ==
           CASE e = "SetObj" -> Line.tf # tf
             [] e = "FreshObj" -> Line.obj # M.zero \/ Line.tf # tf
             [] e = "NewEmpty" -> ~IsEmptyOf(Line.tf, tt.at) \/ Line.obj # obj
             [] e \in {"LoadRaw", "LoadPlan"} -> Line.obj # obj
             [] e = "CopyTo" -> \/ pn # toR.pn \/ Line.obj # obj
                                \/ (~pn /\ (MaskTf(M, Line.tf) # MaskTf(M, toR.tf) \/ DgSet(Line.diags) # DgSet(toR.dg)))
             [] e = "CopyFrom" -> \/ pn # fromR.pn \/ Line.tf # tf
                                  \/ (~pn /\ (MaskCustomGo(M, 1, Line.obj) # MaskCustomGo(M, 1, fromR.obj) \/ DgSet(Line.diags) # DgSet(fromR.dg)))
             [] OTHER -> FALSE
     IN /\ aux' = j.aux
        /\ pr' = [pr EXCEPT !.step = k]
        /\ pm' = IF pr.key # "" /\ pr.role = "base"
                  THEN Put(pm, pr.key, IF pr.key \in DOMAIN pm /\ k > 1 THEN Append(pm[pr.key], snap) ELSE <<snap>>) ELSE pm
        /\ ReportE(j.viol \cup pairViol
                   \cup (IF "C18" \in Wanted THEN {[x EXCEPT !.sig = x.c \o " " \o @, !.c = "C18.exclude_restores"] : x \in j.viol} ELSE {}),
                   drift /\ ~("nodrift" \in Wanted), e,
                   j.evald \cup pairEval \cup (IF "C18" \in Wanted /\ j.evald # {} THEN {"C18"} ELSE {}))

\* a behaviour whose root type was not generated / did not compile: its lines are skipped
TraceSkip ==
  /\ l <= Len(TraceLog) /\ Line.ev # "Reset" /\ ~ok /\ l' = l + 1
  /\ UNCHANGED <<bid, shp, ok, M, Mi, tt, ev, obj, tf, aux, gm, pm, pr>>
  /\ TLCSet(2, l)

Next == \/ TraceReset \/ TraceSkip
        \/ \E e \in {"SetObj", "FreshObj", "NewEmpty", "LoadRaw", "LoadPlan", "CopyTo", "CopyFrom"} : TraceStep(e)

Spec == Init /\ [][Next]_vars

\* every line was consumed: the trace is a behaviour of the specification
TraceAccepted ==
  /\ PrintT(ToJson([accepted |-> TLCGet(2) = Len(TraceLog), consumed |-> TLCGet(2), lines |-> Len(TraceLog), judged |-> TLCGet(3)]))
  /\ TLCGet(2) = Len(TraceLog)
=============================================================================
