------------------------------- MODULE Trace -------------------------------
(***************************************************************************)
(* Trace validation    (DESIGN.md §5.5).  The driver's ndjson trace of REAL   *)
(* executions is replayed against the specification: every line must be    *)
(* an instance of a session action, the recorded post-state is bound to    *)
(* the variables, every applicable Contract clause is evaluated on the     *)
(* real pre/post states, and the real post-state is compared with the      *)
(* Impl model's prediction (drift).  Behaviours are concatenated with      *)
(* Reset lines, which rebuild M from the abstract descriptor with the      *)
(* specification's own generator model.                                    *)
(***************************************************************************)
EXTENDS Judge, Json, IOUtils, TLCExt

TraceLog == ndJsonDeserialize(IOEnv.VERIF_TRACE)

VARIABLES l,      \* next line to consume
          bid,    \* behaviour id
          shp,    \* shape id of the behaviour (relational memory is kept per shape)
          ok,     \* behaviour has a registered (generated + compiled) root type
          M,      \* built message of the root (spec's generator model)
          tt,     \* Terraform type of the REAL schema
          ev,     \* properties to evaluate for this behaviour
          obj, tf,\* the session state: Go struct value and Terraform object (REAL, as recorded)
          aux     \* history for the relational clauses (Judge.tla)

vars == <<l, bid, shp, ok, M, tt, ev, obj, tf, aux>>

Line == TraceLog[l]
NilObject == VObj(FALSE, FALSE, EmptyFn, EmptyFn, TRUE)

DgSet(dg) == {[sev |-> dg[i].sev, kind |-> dg[i].kind, path |-> dg[i].path] : i \in DOMAIN dg}

\* custom attributes hold whatever the user's hook returned: masked before comparing with the model
RECURSIVE MaskTf(_, _)
MaskTf(Mm, tv) ==
  IF tv.k # "obj" THEN tv
  ELSE [tv EXCEPT !.attrs = [a \in DOMAIN tv.attrs |->
          IF a \notin AttrNames(Mm) THEN tv.attrs[a]
          ELSE LET F == FieldByAttr(Mm, a)
                   x == tv.attrs[a]
               IN CASE F.kind = "custom" -> HookValue
                    [] F.kind = "obj" -> MaskTf(SubOf(F), x)
                    [] F.kind = "objlist" /\ x.k = "list" -> [x EXCEPT !.elems = [i \in DOMAIN x.elems |-> MaskTf(SubOf(F), x.elems[i])]]
                    [] F.kind = "objmap" /\ x.k = "map" -> [x EXCEPT !.mels = [key \in DOMAIN x.mels |-> MaskTf(SubOf(F), x.mels[key])]]
                    [] OTHER -> x]]

\* one record per judged line: which properties had their antecedent satisfied here (evald), which
\* clause instances failed on the REAL state (viol), whether the real post-state differs from the model
ReportE(viol, drift, what, evald) ==
  /\ TLCSet(2, l)
  /\ TLCSet(3, TLCGet(3) + 1)
  /\ IF viol # {} \/ drift \/ evald # {}
     THEN PrintT(ToJson([l |-> l, id |-> IF Line.ev = "Reset" THEN Line.id ELSE bid, ev |-> Line.ev, viol |-> viol,
                         drift |-> drift, what |-> what, evald |-> evald]))
     ELSE TRUE

Wanted == {ev[i] : i \in DOMAIN ev}

Init ==
  /\ l = 1 /\ bid = "" /\ shp = "" /\ ok = FALSE /\ M = NoBuilt /\ tt = TNone /\ ev = <<>>
  /\ obj = Nil /\ tf = NilObject /\ aux = NoAux
  /\ TLCSet(2, 0) /\ TLCSet(3, 0)

IsEvent(e) == l <= Len(TraceLog) /\ Line.ev = e /\ l' = l + 1

SchemaTT(schema) == TObj([n \in DOMAIN schema.attrs |-> schema.attrs[n].type])

TraceReset ==
  /\ IsEvent("Reset")
  /\ LET b == BuildRoot(Line.meta.d, Line.meta.cfg, Line.meta.root)
     IN /\ bid' = Line.id
        /\ shp' = Line.meta.shape
        /\ ok' = (Line.registered /\ b.ok)
        /\ M' = b.m
        /\ tt' = SchemaTT(Line.schema)
        /\ ev' = Line.meta.eval
        /\ obj' = b.m.zero
        /\ tf' = NilObject
        \* pairwise memory (C05) survives from behaviour to behaviour of the same shape
        /\ aux' = IF Line.meta.shape = shp THEN [NoAux EXCEPT !.memo = aux.memo] ELSE NoAux
        /\ ReportE({}, b.ok /\ Line.registered /\ SchemaTT(Line.schema) # b.m.tt, "schema type vs model", {})

\* every other line: an action of the session machine whose post-state is the RECORDED one
TraceStep(e) ==
  /\ IsEvent(e) /\ ok
  /\ obj' = Line.obj /\ tf' = Line.tf
  /\ UNCHANGED <<bid, shp, ok, M, tt, ev>>
  /\ LET pn == Line.panic # ""
         j == Judge(e, Wanted, M, tt, aux, [pobj |-> obj, ptf |-> tf, obj |-> Line.obj, tf |-> Line.tf, dg |-> Line.diags, pn |-> pn, conv |-> Line.conv])
         toR == ToMsg(M, obj, tf)
         fromR == FromMsg(M, tf, obj)
         drift ==
           CASE e = "SetObj" -> Line.tf # tf
             [] e = "FreshObj" -> Line.obj # M.zero \/ Line.tf # tf
             [] e = "NewEmpty" -> ~IsEmptyOf(Line.tf, tt.at) \/ Line.obj # obj
             [] e \in {"LoadRaw", "LoadPlan"} -> Line.obj # obj
             [] e = "CopyTo" -> \/ pn # toR.pn \/ Line.obj # obj
                                \/ (~pn /\ (MaskTf(M, Line.tf) # MaskTf(M, toR.tf) \/ DgSet(Line.diags) # DgSet(toR.dg)))
             [] e = "CopyFrom" -> \/ pn # fromR.pn \/ Line.tf # tf
                                  \/ (~pn /\ (MaskCustomGo(M, 1, Line.obj) # MaskCustomGo(M, 1, fromR.obj) \/ DgSet(Line.diags) # DgSet(fromR.dg)))
             [] OTHER -> FALSE
     IN /\ aux' = j.aux
        /\ ReportE(j.viol, drift /\ ~("nodrift" \in Wanted), e, j.evald)

\* a behaviour whose root type was not generated / did not compile: its lines are skipped
TraceSkip ==
  /\ l <= Len(TraceLog) /\ Line.ev # "Reset" /\ ~ok /\ l' = l + 1
  /\ UNCHANGED <<bid, shp, ok, M, tt, ev, obj, tf, aux>>
  /\ TLCSet(2, l)

Next == \/ TraceReset \/ TraceSkip
        \/ \E e \in {"SetObj", "FreshObj", "NewEmpty", "LoadRaw", "LoadPlan", "CopyTo", "CopyFrom"} : TraceStep(e)

Spec == Init /\ [][Next]_vars

\* every line was consumed: the trace is a behaviour of the specification
TraceAccepted ==
  /\ PrintT(ToJson([accepted |-> TLCGet(2) = Len(TraceLog), consumed |-> TLCGet(2), lines |-> Len(TraceLog), judged |-> TLCGet(3)]))
  /\ TLCGet(2) = Len(TraceLog)
=============================================================================
