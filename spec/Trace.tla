------------------------------- MODULE Trace -------------------------------
(***************************************************************************)
(* Trace validation    (DESIGN.md §5.5).  The driver's ndjson trace of REAL   *)
(* executions is replayed against the specification: every line must be    *)
(* an instance of a session action, the recorded post-state is bound to    *)
(* the variables, every applicable Contract clause is evaluated on the     *)
(* real pre/post states, and the real post-state is compared with the      *)
(* Impl model's prediction (drift).  Behaviours are concatenated with      *)
(* Reset lines, which rebuild M from the abstract descriptor with the      *)
(* specification's own generator model.                                    *)
(***************************************************************************)
EXTENDS Contract, Json, IOUtils, TLCExt

TraceLog == ndJsonDeserialize(IOEnv.VERIF_TRACE)

VARIABLES l,      \* next line to consume
          bid,    \* behaviour id
          ok,     \* behaviour has a registered (generated + compiled) root type
          M,      \* built message of the root (spec's generator model)
          tt,     \* Terraform type of the REAL schema
          ev,     \* properties to evaluate for this behaviour
          obj, tf,\* the session state: Go struct value and Terraform object (REAL, as recorded)
          rt      \* round-trip memory: [armed, orig]

vars == <<l, bid, ok, M, tt, ev, obj, tf, rt>>

Line == TraceLog[l]
NilObject == VObj(FALSE, FALSE, EmptyFn, EmptyFn, TRUE)
NoRT == [armed |-> FALSE, orig |-> Nil]

DgSet(dg) == {[sev |-> dg[i].sev, kind |-> dg[i].kind, path |-> dg[i].path] : i \in DOMAIN dg}

\* custom attributes hold whatever the user's hook returned: masked before comparing with the model
RECURSIVE MaskTf(_, _)
MaskTf(Mm, tv) ==
  IF tv.k # "obj" THEN tv
  ELSE [tv EXCEPT !.attrs = [a \in DOMAIN tv.attrs |->
          IF a \notin AttrNames(Mm) THEN tv.attrs[a]
          ELSE LET F == FieldByAttr(Mm, a)
                   x == tv.attrs[a]
               IN CASE F.kind = "custom" -> HookValue
                    [] F.kind = "obj" -> MaskTf(SubOf(F), x)
                    [] F.kind = "objlist" /\ x.k = "list" -> [x EXCEPT !.elems = [i \in DOMAIN x.elems |-> MaskTf(SubOf(F), x.elems[i])]]
                    [] F.kind = "objmap" /\ x.k = "map" -> [x EXCEPT !.mels = [key \in DOMAIN x.mels |-> MaskTf(SubOf(F), x.mels[key])]]
                    [] OTHER -> x]]

\* one record per judged line: which properties had their antecedent satisfied here (evald), which
\* clause instances failed on the REAL state (viol), whether the real post-state differs from the model
ReportE(viol, drift, what, evald) ==
  /\ TLCSet(2, l)
  /\ TLCSet(3, TLCGet(3) + 1)
  /\ IF viol # {} \/ drift \/ evald # {}
     THEN PrintT(ToJson([l |-> l, id |-> IF Line.ev = "Reset" THEN Line.id ELSE bid, ev |-> Line.ev, viol |-> viol,
                         drift |-> drift, what |-> what, evald |-> evald]))
     ELSE TRUE

Report(viol, drift, what) == ReportE(viol, drift, what, {})

Wants(p) == \E i \in DOMAIN ev : ev[i] = p

IsEmptyTyped(tv) == tv.k = "obj" /\ ~tv.null /\ ~tv.unk /\ tv.at = tt.at /\ DOMAIN tv.attrs = {}

Init ==
  /\ l = 1 /\ bid = "" /\ ok = FALSE /\ M = NoBuilt /\ tt = TNone /\ ev = <<>>
  /\ obj = Nil /\ tf = NilObject /\ rt = NoRT
  /\ TLCSet(2, 0) /\ TLCSet(3, 0)

IsEvent(e) == l <= Len(TraceLog) /\ Line.ev = e /\ l' = l + 1

SchemaTT(schema) == TObj([n \in DOMAIN schema.attrs |-> schema.attrs[n].type])

TraceReset ==
  /\ IsEvent("Reset")
  /\ LET b == BuildRoot(Line.meta.d, Line.meta.cfg, Line.meta.root)
     IN /\ bid' = Line.id
        /\ ok' = (Line.registered /\ b.ok)
        /\ M' = b.m
        /\ tt' = SchemaTT(Line.schema)
        /\ ev' = Line.meta.eval
        /\ obj' = b.m.zero
        /\ tf' = NilObject
        /\ rt' = NoRT
        /\ Report({}, b.ok /\ Line.registered /\ SchemaTT(Line.schema) # b.m.tt, "schema type vs model")

TraceSetObj ==
  /\ IsEvent("SetObj") /\ ok
  /\ obj' = Line.obj /\ tf' = Line.tf
  /\ UNCHANGED <<bid, ok, M, tt, ev>>
  /\ rt' = NoRT
  /\ Report({}, Line.tf # tf, "SetObj changed tf")

TraceFreshObj ==
  /\ IsEvent("FreshObj") /\ ok
  /\ obj' = Line.obj /\ tf' = Line.tf
  /\ UNCHANGED <<bid, ok, M, tt, ev, rt>>
  /\ Report({}, Line.obj # M.zero \/ Line.tf # tf, "fresh struct vs model zero")

TraceNewEmpty ==
  /\ IsEvent("NewEmpty") /\ ok
  /\ obj' = Line.obj /\ tf' = Line.tf
  /\ UNCHANGED <<bid, ok, M, tt, ev>>
  /\ rt' = NoRT
  /\ Report({}, ~IsEmptyTyped(Line.tf) \/ Line.obj # obj, "empty object")

TraceLoad ==
  /\ (IsEvent("LoadRaw") \/ IsEvent("LoadPlan")) /\ ok
  /\ obj' = Line.obj /\ tf' = Line.tf
  /\ UNCHANGED <<bid, ok, M, tt, ev>>
  /\ rt' = NoRT
  /\ Report({}, Line.obj # obj, "Load changed obj")

TraceCopyTo ==
  /\ IsEvent("CopyTo") /\ ok
  /\ obj' = Line.obj /\ tf' = Line.tf
  /\ UNCHANGED <<bid, ok, M, tt, ev>>
  /\ LET pn == Line.panic # ""
         impl == ToMsg(M, obj, tf)
         fromEmpty == IsEmptyTyped(tf)
         ctx == [M |-> M, tt |-> tt, obj |-> obj, tf |-> Line.tf, dg |-> Line.diags, pn |-> pn, conv |-> Line.conv]
         viol == (IF fromEmpty /\ Wants("C03") THEN C03(ctx) ELSE {})
            \cup (IF fromEmpty /\ Wants("C20") THEN C20(ctx) ELSE {})
            \cup (IF fromEmpty /\ Wants("C07") /\ ~pn THEN C07To(M, obj, Line.tf) ELSE {})
         drift == \/ pn # impl.pn
                  \/ (~pn /\ (MaskTf(M, Line.tf) # MaskTf(M, impl.tf) \/ DgSet(Line.diags) # DgSet(impl.dg)))
                  \/ Line.obj # obj
     IN /\ rt' = IF fromEmpty /\ ~pn THEN [armed |-> TRUE, orig |-> obj] ELSE NoRT
        /\ ReportE(viol, drift, "CopyTo", {p \in {"C03", "C20", "C07"} : fromEmpty /\ Wants(p)})

TraceCopyFrom ==
  /\ IsEvent("CopyFrom") /\ ok
  /\ obj' = Line.obj /\ tf' = Line.tf
  /\ UNCHANGED <<bid, ok, M, tt, ev>>
  /\ rt' = NoRT
  /\ LET pn == Line.panic # ""
         impl == FromMsg(M, tf, obj)
         fresh == obj = M.zero
         rtctx == [M |-> M, orig |-> rt.orig, back |-> Line.obj]
         viol == (IF rt.armed /\ fresh /\ ~pn /\ Wants("C04") THEN C04(rtctx) ELSE {})
            \cup (IF rt.armed /\ fresh /\ ~pn /\ Wants("C19") THEN C19(rtctx) ELSE {})
            \cup (IF rt.armed /\ fresh /\ pn /\ (Wants("C04") \/ Wants("C19")) THEN {[c |-> "C04.roundtrip", p |-> M.path, sig |-> PanicSig(M, obj)]} ELSE {})
            \cup (IF Wants("C07") /\ ~pn /\ Conforms(tf, tt) THEN C07From(M, tf, Line.obj) ELSE {})
         drift == \/ pn # impl.pn
                  \/ (~pn /\ (MaskCustomGo(M, 1, Line.obj) # MaskCustomGo(M, 1, impl.obj) \/ DgSet(Line.diags) # DgSet(impl.dg)))
                  \/ Line.tf # tf
     IN ReportE(viol, drift, "CopyFrom",
                {p \in {"C04", "C19"} : rt.armed /\ fresh /\ Wants(p)} \cup {p \in {"C07"} : Wants(p) /\ ~pn /\ Conforms(tf, tt)})

\* a behaviour whose root type was not generated / did not compile: its lines are skipped
TraceSkip ==
  /\ l <= Len(TraceLog) /\ Line.ev # "Reset" /\ ~ok /\ l' = l + 1
  /\ UNCHANGED <<bid, ok, M, tt, ev, obj, tf, rt>>
  /\ TLCSet(2, l)

Next == TraceReset \/ TraceSetObj \/ TraceFreshObj \/ TraceNewEmpty \/ TraceLoad \/ TraceCopyTo \/ TraceCopyFrom \/ TraceSkip

Spec == Init /\ [][Next]_vars

\* every line was consumed: the trace is a behaviour of the specification
TraceAccepted ==
  /\ PrintT(ToJson([accepted |-> TLCGet(2) = Len(TraceLog), consumed |-> TLCGet(2), lines |-> Len(TraceLog), judged |-> TLCGet(3)]))
  /\ TLCGet(2) = Len(TraceLog)
=============================================================================
