---- MODULE MC_GenMap ----
(* Family "genmap": one plugin run per shape: the 15 scalar types x {singular, repeated, map, oneof branch}, naming variants, and every session shape.  Serves C01 C02. *)
EXTENDS GenShapes, TLC, Json
CONSTANTS MCDeep, MCLong
VARIABLES sh, M, Mi, obj, tf, dg, pn, pc, hist, viol, aux
MCShapes == GenMapShapesAll
MCProps == {"C01", "C02"}
ASSUME PrintT("SHAPES " \o ToJson(MCShapes))
INSTANCE Session WITH Shapes <- MCShapes, Script <- <<>>, Deep <- MCDeep, Props <- MCProps, ObjMode <- "all", RawMode <- "plans", EmptyMode <- "plain"
====
