---- MODULE MC_SessReset ----
(* Family "reset": SetObj prior ; LoadRaw p ; CopyFrom for every conforming object p (payloads under null / unknown included) and prior target content.  Serves C05 C07(from). *)
EXTENDS Shapes, TLC, Json
CONSTANTS MCDeep, MCLong
VARIABLES sh, M, Mi, obj, tf, dg, pn, pc, hist, viol, aux
MCShapes == AllSessionShapes \o ResetExtraShapes
MCScript == IF MCLong THEN <<"SetObj", "LoadRaw", "CopyFrom">> ELSE <<"SetObj", "LoadRaw", "CopyFrom">>
MCProps == {"C05", "C07"}
ASSUME PrintT("SHAPES " \o ToJson(MCShapes))
INSTANCE Session WITH Shapes <- MCShapes, Script <- MCScript, Deep <- MCDeep, Props <- MCProps, ObjMode <- "prior", RawMode <- "plans", EmptyMode <- "plain"
====
