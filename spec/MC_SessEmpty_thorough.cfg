SPECIFICATION Spec
CONSTANT MCDeep = TRUE
INVARIANT Emit
CHECK_DEADLOCK FALSE
