----------------------------- MODULE Generator -----------------------------
(***************************************************************************)
(* Model of the generator's build phase: from an abstract descriptor d     *)
(* (DESIGN.md §3, harness/absd) and configuration cfg to the *built        *)
(* message* — the analogue of Message / Field in message.go / field.go.    *)
(* Operators mirror the code one to one:                                   *)
(*   BuildMsg        message.go: BuildMessage                              *)
(*   BuildFieldsFrom field.go: BuildFields                                 *)
(*   BuildField      field.go: BuildField   (excluded | embedded | Field)  *)
(*   FlagValue, NameSnake, Validators, PlanMods, TfClass                   *)
(*                   field_build_context.go: GetFlagValue, GetNameSnake,   *)
(*                   GetValidators, GetPlanModifiers, GetTerraformType     *)
(* The built message is interpreted by CopyTo.tla / CopyFrom.tla /         *)
(* Schema.tla and is the structure the Contract clauses quantify over.     *)
(***************************************************************************)
EXTENDS Naturals, Sequences, FiniteSets, TLC, SequencesExt, Names, Values, Quirks


\* ---- configuration look-ups (cfg lists are sequences of [k, v] records)
KVHas(kvs, key) == \E i \in DOMAIN kvs : kvs[i].k = key
KVGet(kvs, key) == kvs[CHOOSE i \in DOMAIN kvs : kvs[i].k = key].v

\* messages a field may refer to: those of the file to generate and those of the other files of its package
\* (dependency files marked `share`)
AllMsgs(d) == d.msgs \o FlattenSeq([i \in DOMAIN d.deps |-> IF d.deps[i].share THEN d.deps[i].msgs ELSE <<>>])
MsgNames(d) == {AllMsgs(d)[i].name : i \in DOMAIN AllMsgs(d)}
MsgNamed(d, n) == AllMsgs(d)[CHOOSE i \in DOMAIN AllMsgs(d) : AllMsgs(d)[i].name = n]

\* ---- field classification (field_descriptor_proto_ext.go)
IsTime(f) == f.std = "time" \/ f.ty = "timestamp" \/ f.cast = "time.Time"
IsDuration(cfg, f) == \/ f.std = "duration" \/ f.ty = "duration" \/ f.cast = "time.Duration"
                      \/ (cfg.durationcustom # "" /\ f.cast = cfg.durationcustom)
IsMsgTy(f) == f.ty = "msg" /\ ~IsTime(f)

IntTys == {"int64", "uint64", "int32", "uint32", "fixed64", "fixed32", "sfixed32", "sfixed64", "sint32", "sint64"}

\* GetTerraformType: "" = unmappable
TfClass(cfg, f) ==
  CASE IsTime(f) -> IF cfg.timetype THEN "time" ELSE ""
    [] IsDuration(cfg, f) -> IF cfg.durationtype THEN "duration" ELSE ""
    [] f.ty \in {"double", "float"} -> "float"
    [] f.ty \in IntTys -> "int"
    [] f.ty = "bool" -> "bool"
    [] f.ty = "string" -> "string"
    [] f.ty = "bytes" -> "bytes"
    [] f.ty = "enum" -> "enum"
    [] f.ty = "msg" -> "none"
    [] OTHER -> ""

\* the Go base type of the field's scalar (what the value range of C19 depends on)
GoBaseType(cfg, f) ==
  CASE IsTime(f) -> "time"
    [] IsDuration(cfg, f) -> "duration"
    [] f.ty = "double" -> "float64"
    [] f.ty = "float" -> "float32"
    [] f.ty \in {"int64", "sfixed64", "sint64"} -> "int64"
    [] f.ty \in {"uint64", "fixed64"} -> "uint64"
    [] f.ty \in {"int32", "sfixed32", "sint32"} -> "int32"
    [] f.ty \in {"uint32", "fixed32"} -> "uint32"
    [] f.ty = "enum" -> "enum"
    [] OTHER -> f.ty

HasZeroLit(cls) == cls \in {"int", "float", "bool", "string", "bytes", "enum"}

\* pointer in the Go type: messages unless nullable=false; std time / duration unless nullable=false
GoPointer(f) == (f.ty \in {"msg", "timestamp", "duration"}) /\ f.nullable

\* ---- GetFlagValue / overrides: full path first, then Message.field
FlagValue(list, tn, path) == tn \in Range(list) \/ path \in Range(list)

NameSnake(cfg, f, tn, path) ==
  IF KVHas(cfg.nameoverrides, path) THEN KVGet(cfg.nameoverrides, path)
  ELSE IF KVHas(cfg.nameoverrides, tn) THEN KVGet(cfg.nameoverrides, tn)
  ELSE IF f.hasjson /\ JsonFirst(f.jsontag) \notin {"", "-"} THEN JsonFirst(f.jsontag)
  ELSE Snake(f.name)

Validators(cfg, tn, path) ==
  IF KVHas(cfg.validators, path) THEN KVGet(cfg.validators, path)
  ELSE IF KVHas(cfg.validators, tn) THEN KVGet(cfg.validators, tn) ELSE <<>>

PlanMods(cfg, tn, path, computed) ==
  IF KVHas(cfg.planmodifiers, path) THEN KVGet(cfg.planmodifiers, path)
  ELSE IF KVHas(cfg.planmodifiers, tn) THEN KVGet(cfg.planmodifiers, tn)
  ELSE IF cfg.usfu /\ computed THEN <<"USFU">> ELSE <<>>

CustomTypeOf(cfg, f, path) == IF KVHas(cfg.customtypes, path) THEN KVGet(cfg.customtypes, path) ELSE f.custom
\* default suffix: the type name without dots and slashes (qualified names of the pool are tabulated: TLC has no
\* character-level string operations)
StrippedNames == [x \in {"ext/wrappers.Traits", "wrappers.Traits", "verif/harness/ext/ct.Label", "verif/harness/ext/ct.Tag"} |->
                    CASE x = "ext/wrappers.Traits" -> "extwrappersTraits" [] x = "wrappers.Traits" -> "wrappersTraits"
                      [] x = "verif/harness/ext/ct.Label" -> "verifharnessextctLabel" [] OTHER -> "verifharnessextctTag"]
SuffixOf(cfg, ct) == IF KVHas(cfg.suffixes, ct) THEN KVGet(cfg.suffixes, ct)
                     ELSE IF ct \in DOMAIN StrippedNames THEN StrippedNames[ct] ELSE ct

\* ---- the built field / message records (uniform)
NoMsg == <<>>

BF(name, attr, kind, cls, nullable, path) ==
  [name |-> name, attr |-> attr, kind |-> kind, cls |-> cls, tfty |-> TfTyOf(cls), zero |-> HasZeroLit(cls),
   nullable |-> nullable, oneof |-> "", embed |-> "", placeholder |-> FALSE, path |-> path, msg |-> NoMsg,
   required |-> FALSE, computed |-> FALSE, sensitive |-> FALSE, validators |-> <<>>, planmods |-> <<>>,
   desc |-> <<>>, suffix |-> "", gopath |-> <<name>>, proto |-> name, tn |-> "", fixeddesc |-> "", pzero |-> Nil, pmixed |-> FALSE, goty |-> "", rep |-> FALSE, ismap |-> FALSE, opath |-> <<>>]

PlaceholderDesc == "Automatically generated field preventing empty message errors"

Placeholder(path) ==
  [BF("active", "active", "prim", "bool", FALSE, path \o ".active")
     EXCEPT !.placeholder = TRUE, !.computed = TRUE, !.gopath = <<>>, !.fixeddesc = PlaceholderDesc]

Fail(err) == [ok |-> FALSE, fs |-> <<>>, err |-> err]
Ok(fs) == [ok |-> TRUE, fs |-> fs, err |-> ""]

\* insertion sort of built fields by Go name (sort.Slice in BuildFields; names are distinct in D)
RECURSIVE InsertByRank(_, _)
InsertByRank(sorted, x) ==
  IF sorted = <<>> THEN <<x>>
  ELSE IF Rank(x.name) < Rank(Head(sorted).name) THEN <<x>> \o sorted
  ELSE <<Head(sorted)>> \o InsertByRank(Tail(sorted), x)

RECURSIVE SortFields(_)
SortFields(fs) == IF fs = <<>> THEN <<>> ELSE InsertByRank(SortFields(Tail(fs)), Head(fs))

OneofHolders(m) == [i \in DOMAIN m.oneofs |-> GoName(m.oneofs[i])]

\* ---- zero value of the Go struct gogo generates for message mn (independent of the configuration)
RECURSIVE ZeroStruct(_, _)
ZeroFieldGV(d, f) ==
  IF f.card # "one" THEN Nil
  ELSE IF f.ty = "msg" THEN (IF f.nullable THEN Nil ELSE ZeroStruct(d, f.ref))
  \* (a group is a pointer to the struct of its type in the Go code)
  ELSE IF f.ty = "bogus" THEN Nil
  ELSE IF f.ty \in {"timestamp", "duration"} THEN
       (IF f.nullable THEN Nil ELSE Sc(IF f.ty = "timestamp" THEN ZeroTime ELSE "0"))
  ELSE Sc(CASE f.ty \in {"double", "float"} -> "0"
            [] f.ty \in IntTys \cup {"enum"} -> "0"
            [] f.ty = "bool" -> "false"
            [] OTHER -> "")
GoFieldName(f) == IF f.embed THEN GoName(f.ref) ELSE GoName(f.name)
ZeroStruct(d, mn) ==
  LET m == MsgNamed(d, mn)
      plain == {i \in DOMAIN m.fields : m.fields[i].oneof = ""}
      names == {GoFieldName(m.fields[i]) : i \in plain} \cup Range(OneofHolders(m))
  IN St([n \in names |->
          IF n \in Range(OneofHolders(m)) THEN Nil
          ELSE ZeroFieldGV(d, m.fields[CHOOSE i \in plain : GoFieldName(m.fields[i]) = n])])

\* ---- Terraform type of a built message
RECURSIVE TTofFields(_)
TTofField(F) ==
  LET sub == IF F.msg = NoMsg THEN TNone ELSE F.msg[1].tt
  IN CASE F.kind = "prim" -> TPrim(F.tfty)
       [] F.kind = "primlist" -> TList(TPrim(F.tfty))
       [] F.kind = "primmap" -> TMap(TPrim(F.tfty))
       [] F.kind = "obj" -> sub
       [] F.kind = "objlist" -> TList(sub)
       [] F.kind = "objmap" -> TMap(sub)
       [] OTHER -> TPrim("string")    \* custom: the harness hooks present a String attribute
TTofFields(fs) == [a \in {fs[i].attr : i \in DOMAIN fs} |-> TTofField(fs[CHOOSE i \in DOMAIN fs : fs[i].attr = a])]

InjectedOf(cfg, path) == IF KVHas(cfg.injected, path) THEN KVGet(cfg.injected, path) ELSE <<>>

InjTT(inj) == [a \in {inj[i].name : i \in DOMAIN inj} |-> TPrim(inj[CHOOSE i \in DOMAIN inj : inj[i].name = a].type)]

Merge(f, g) == [x \in (DOMAIN f) \cup (DOMAIN g) |-> IF x \in DOMAIN g THEN g[x] ELSE f[x]]

RECURSIVE HolderPathsFrom(_, _, _)
HolderPathsFrom(fs, i, acc) ==
  IF i > Len(fs) THEN acc
  ELSE HolderPathsFrom(fs, i + 1, IF fs[i].opath = <<>> \/ (\E k \in DOMAIN acc : acc[k] = fs[i].opath) THEN acc ELSE Append(acc, fs[i].opath))
HolderPaths(fs) == HolderPathsFrom(fs, 1, <<>>)

\* ---- BuildMessage / BuildFields / BuildField
RECURSIVE BuildMsg(_, _, _, _, _, _)
RECURSIVE BuildFieldsFrom(_, _, _, _, _, _, _)

\* result of BuildMsg: [ok, m, err]
NoBuilt == [name |-> "", path |-> "", empty |-> TRUE, oneofs |-> <<>>, ohold |-> <<>>, fields |-> <<>>, injected |-> <<>>,
            zero |-> Nil, tt |-> TNone, depth |-> 0, hasembed |-> FALSE]

BuildField(q, d, cfg, m, mpath, i, fuel) ==
  LET f == m.fields[i]
      tn == m.name \o "." \o f.name
      \* NewFieldBuildContext: an embedded field's path is the message name, not the message path
      path == IF f.embed THEN (IF q /\ Q("embedPathReset") THEN m.name ELSE mpath) ELSE mpath \o "." \o f.name
      cls == TfClass(cfg, f)
      computed == FlagValue(cfg.computed, tn, path)
      \* schema_types: the attribute type of the field (and of its elements) is replaced; looked up by path, then by
      \* Message.field.  The harness offers two replacement types (strings / 64-bit integers under other names).
      ovr == IF KVHas(cfg.schematypes, path) THEN KVGet(cfg.schematypes, path)
             ELSE IF KVHas(cfg.schematypes, tn) THEN KVGet(cfg.schematypes, tn) ELSE ""
      base == [BF(GoName(f.name), NameSnake(cfg, f, tn, path), "prim", cls, GoPointer(f), path) EXCEPT
                 !.required = FlagValue(cfg.required, tn, path),
                 !.computed = computed,
                 !.sensitive = FlagValue(cfg.sensitive, tn, path),
                 !.validators = Validators(cfg, tn, path),
                 !.planmods = PlanMods(cfg, tn, path, computed),
                 !.desc = f.comment,
                 !.proto = f.name,
                 !.tn = tn,
                 !.goty = GoBaseType(cfg, f),
                 !.tfty = IF ovr = "string" THEN "ovrstring" ELSE IF ovr = "int64" THEN "ovrint64" ELSE @,
                 !.rep = f.card = "rep",
                 !.ismap = f.card = "map",
                 !.oneof = IF f.oneof = "" THEN "" ELSE GoName(f.oneof),
                 \* Go path of the holder of the field's oneof group (prefixed like gopath when the message is embedded)
                 !.opath = IF f.oneof = "" THEN <<>> ELSE <<GoName(f.oneof)>>]
      iscustom == f.custom # "" \/ KVHas(cfg.customtypes, path)
      custom(F) == IF iscustom THEN [F EXCEPT !.kind = "custom", !.suffix = SuffixOf(cfg, CustomTypeOf(cfg, f, path))] ELSE F
  IN
  IF FlagValue(cfg.exclude, tn, path) THEN Ok(<<>>)
  ELSE IF cls = "" THEN Fail(path)
  ELSE IF f.card = "map" THEN
      IF f.mapkey # "string" THEN Fail(path)
      ELSE IF f.ty = "msg" /\ ~IsTime(f) THEN
         LET sub == BuildMsg(q, d, cfg, f.ref, path, fuel - 1)
         IN IF ~sub.ok THEN Fail(sub.err)
            ELSE Ok(<<custom([base EXCEPT !.kind = "objmap", !.msg = <<sub.m>>, !.zero = FALSE])>>)
      \* a map field's own ZeroValue stays empty: element null-ness differs from lists
      ELSE Ok(<<custom([base EXCEPT !.kind = "primmap", !.zero = FALSE])>>)
  ELSE IF f.ty = "msg" /\ ~IsTime(f) THEN
      LET sub == BuildMsg(q, d, cfg, f.ref, path, fuel - 1)
      IN IF ~sub.ok THEN Fail(sub.err)
         ELSE IF f.embed /\ f.card = "one" THEN
            \* the message's fields replace the field; nullable: each child remembers its parent
            LET par == GoName(f.ref)
            IN Ok([j \in DOMAIN sub.m.fields |->
                    [sub.m.fields[j] EXCEPT !.gopath = <<par>> \o @,
                                            !.opath = IF @ = <<>> THEN @ ELSE <<par>> \o @,
                                            !.embed = IF f.nullable THEN par ELSE @,
                                            !.pzero = IF f.nullable THEN ZeroStruct(d, f.ref) ELSE @,
                                            !.pmixed = IF f.nullable THEN \E k \in DOMAIN sub.m.fields : sub.m.fields[k].kind # "prim" ELSE @]])
         ELSE IF f.card = "rep" THEN Ok(<<custom([base EXCEPT !.kind = "objlist", !.msg = <<sub.m>>])>>)
         ELSE Ok(<<custom([base EXCEPT !.kind = "obj", !.msg = <<sub.m>>])>>)
  ELSE IF f.card = "rep" THEN Ok(<<custom([base EXCEPT !.kind = "primlist"])>>)
  ELSE Ok(<<custom(base)>>)

BuildFieldsFrom(q, d, cfg, m, mpath, i, fuel) ==
  IF i > Len(m.fields) THEN Ok(<<>>)
  ELSE LET one == BuildField(q, d, cfg, m, mpath, i, fuel)
       IN IF ~one.ok THEN one
          ELSE LET rest == BuildFieldsFrom(q, d, cfg, m, mpath, i + 1, fuel)
               IN IF ~rest.ok THEN rest ELSE Ok(one.fs \o rest.fs)

BuildMsg(q, d, cfg, mn, path, fuel) ==
  IF fuel = 0 \/ mn \notin MsgNames(d) THEN [ok |-> FALSE, m |-> NoBuilt, err |-> path]
  ELSE
  LET m == MsgNamed(d, mn)
      empty == Len(m.fields) = 0
      built == IF empty THEN Ok(<<Placeholder(path)>>) ELSE BuildFieldsFrom(q, d, cfg, m, path, 1, fuel)
      fs == IF cfg.sort /\ ~empty THEN SortFields(built.fs) ELSE built.fs
      inj == InjectedOf(cfg, path)
  IN IF ~built.ok THEN [ok |-> FALSE, m |-> NoBuilt, err |-> built.err]
     ELSE [ok |-> TRUE, err |-> "",
           \* oneofs: the groups the message itself declares (GetOneOfNames); ohold: the holder paths of ALL groups
           \* among its fields, those flattened in from embedded messages included (first appearance order)
           m |-> [name |-> mn, path |-> path, empty |-> empty, oneofs |-> OneofHolders(m), ohold |-> HolderPaths(fs), fields |-> fs,
                  injected |-> inj, zero |-> ZeroStruct(d, mn), tt |-> TObj(Merge(TTofFields(fs), InjTT(inj))),
                  depth |-> 6 - fuel, hasembed |-> \E i \in DOMAIN m.fields : m.fields[i].embed]]

\* A root message: path = its name (message.go: BuildMessage, isRoot).
\* BuildRoot is the DOCUMENTED mapping (what the Contract quantifies over); BuildRootImpl additionally applies
\* the named deviations of the current tree (Quirks.tla) and feeds the Impl model.
BuildRoot(d, cfg, root) == BuildMsg(FALSE, d, cfg, root, root, 6)
BuildRootImpl(d, cfg, root) == BuildMsg(TRUE, d, cfg, root, root, 6)

Selected(d, cfg) == {n \in MsgNames(d) : n \in Range(cfg.types)}

\* ---- helpers over built messages
FieldsOf(M) == {M.fields[i] : i \in DOMAIN M.fields}
FieldByAttr(M, a) == M.fields[CHOOSE i \in DOMAIN M.fields : M.fields[i].attr = a]
AttrNames(M) == {M.fields[i].attr : i \in DOMAIN M.fields}
SubOf(F) == F.msg[1]
=============================================================================
