---- MODULE MC_GenFlags ----
(* Family "genflags": runs over flag / validator / plan-modifier / injected-field configurations and comment patterns.  Serves C10. *)
EXTENDS GenShapes, TLC, Json
CONSTANTS MCDeep, MCLong
VARIABLES sh, M, Mi, obj, tf, dg, pn, pc, hist, viol, aux
MCShapes == GenFlagShapes(MCLong)
MCProps == {"C10"}
MCScript == <<>>
ASSUME PrintT("SHAPES " \o ToJson(MCShapes))
INSTANCE Session WITH Shapes <- MCShapes, Script <- MCScript, Deep <- MCDeep, Props <- MCProps, ObjMode <- "all", RawMode <- "plans", EmptyMode <- "plain"
====
