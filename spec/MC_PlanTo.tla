---- MODULE MC_PlanTo ----
(* Family "planto": CopyTo into a target that comes from a PLAN (null / unknown values, null collections as the framework decodes them - Elems nil -, planned empty collections in both forms) for the zero and the fully set struct: SetPrior v ; LoadPlan p ; CopyTo.  Serves C06 (never panics for a non-nil source and target). *)
EXTENDS Shapes, TLC, Json
CONSTANTS MCDeep, MCLong
VARIABLES sh, M, Mi, obj, tf, dg, pn, pc, hist, viol, aux
MCShapes == AllSessionShapes
MCProps == {"C06"}
MCScript == <<"SetPrior", "LoadPlan", "CopyTo">>
ASSUME PrintT("SHAPES " \o ToJson(MCShapes))
INSTANCE Session WITH Shapes <- MCShapes, Script <- MCScript, Deep <- MCDeep, Props <- MCProps, ObjMode <- "all", RawMode <- "plans", EmptyMode <- "plain"
====
