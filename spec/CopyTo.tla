------------------------------- MODULE CopyTo -------------------------------
(***************************************************************************)
(* Impl semantics of the emitted Copy<T>ToTerraform, block by block, as a  *)
(* function of (built message, Go value, Terraform object).  Operator      *)
(* names follow gen_copy_to.go:                                            *)
(*   ToMsg        MessageCopyToGenerator.Generate (entry: Null/Unknown     *)
(*                cleared, Attrs allocated)                                *)
(*   ToFields     GenerateFields                                           *)
(*   ToPrimBody   genPrimitiveBody + genZeroValue + genAssignValue         *)
(*   ToObjBody    genObjectBody                                            *)
(*   ToPrimField  genPrimitive   ToObjField genObject                      *)
(*   ToCollField  genListOrMap   ToCustomField genCustom                   *)
(*   SrcVal       genOneOfStub / promoted access through embedded structs  *)
(* Result of every operator: the new value, diagnostics, panic flag.       *)
(***************************************************************************)
EXTENDS Generator

Diag(kind, path) == [sev |-> "error", kind |-> kind, path |-> path]

PanicV == [t |-> "panic"]

\* read a (promoted) field: a nil pointer on the way is a nil dereference
RECURSIVE GetPath(_, _)
GetPath(obj, gp) ==
  IF gp = <<>> THEN obj
  ELSE LET s == IF obj.t = "ptr" THEN obj.p ELSE obj
       IN IF s.t # "st" THEN PanicV ELSE GetPath(s.f[Head(gp)], Tail(gp))

ZeroBranch(F) == IF F.kind = "obj" THEN Nil ELSE Sc(ZeroScalar(F.cls))

\* the Go expression obj.<Name> as the emitted code evaluates it (genOneOfStub shadows obj with the
\* asserted wrapper or an empty one)
SrcVal(F, obj) ==
  IF F.placeholder THEN Sc("false")
  ELSE IF F.oneof # "" THEN
     LET h == GetPath(obj, F.opath)
     IN IF h.t = "one" /\ h.b = F.name THEN h.w ELSE ZeroBranch(F)
  ELSE GetPath(obj, F.gopath)

Deref(v) == IF v.t = "ptr" THEN v.p ELSE v

\* ------------------------------------------------------------------------
\* genPrimitiveBody.  cur: current attribute value (VNilIf when the comma-ok assertion fails), t: the
\* attribute / element type, src: Go value.
ToPrimBody(F, cur, t, src) ==
  LET reuse == cur.k = "prim" /\ cur.ty = F.tfty
      typed == t.k = "prim" /\ t.ty = F.tfty
      sval  == IF src.t = "ptr" THEN src.p.s ELSE IF src.t = "s" THEN src.s ELSE ZeroOfTf(F.tfty)
      parentNil == F.embed # "" /\ src.t = "panic"
      \* genZeroValue: Null := cast(field) == zero literal, evaluated before the optional-embed guard
      zeroEval == ~reuse /\ ~F.placeholder /\ F.zero
      pn == (zeroEval /\ src.t = "panic" /\ Q("zeroBeforeEmbedGuard")) \/ (src.t = "panic" /\ F.embed = "")
      fresh == VPrim(F.tfty,
                     IF F.placeholder THEN TRUE
                     ELSE IF F.zero THEN (IF src.t = "panic" THEN TRUE ELSE sval \in ZeroSet(F.cls))
                     ELSE FALSE,
                     FALSE, ZeroOfTf(F.tfty))
      v0 == IF reuse THEN cur ELSE fresh
      v1 == IF F.placeholder THEN v0
            ELSE IF parentNil THEN [v0 EXCEPT !.null = TRUE]
            ELSE IF F.nullable THEN
                   (IF src.t = "nil" THEN [v0 EXCEPT !.null = TRUE] ELSE [v0 EXCEPT !.null = FALSE, !.v = sval])
            ELSE [v0 EXCEPT !.v = sval]
  IN [v |-> [v1 EXCEPT !.unk = FALSE],
      dg |-> IF ~reuse /\ ~typed THEN <<Diag("writeConversion", F.path)>> ELSE <<>>,
      pn |-> pn]

RECURSIVE ToFields(_, _, _, _)

\* genObjectBody.  o: the object type to create the value from
ToObjBody(F, cur, o, src) ==
  LET M == SubOf(F)
      v0 == IF cur.k = "obj" THEN [cur EXCEPT !.attrsnil = FALSE]
            ELSE VObj(FALSE, FALSE, EmptyFn, o.at, FALSE)
  IN IF src.t = "panic" THEN [v |-> v0, dg |-> <<>>, pn |-> TRUE]
     ELSE IF F.nullable /\ src.t = "nil" THEN [v |-> [v0 EXCEPT !.null = TRUE, !.unk = FALSE], dg |-> <<>>, pn |-> FALSE]
     ELSE LET r == ToFields(M, 1, Deref(src), [tf |-> v0, dg |-> <<>>, pn |-> FALSE])
          IN [v |-> [r.tf EXCEPT !.unk = FALSE], dg |-> r.dg, pn |-> r.pn]

CurAttr(tf, a) == IF ~tf.attrsnil /\ a \in DOMAIN tf.attrs THEN tf.attrs[a] ELSE VNilIf

SetAttr(tf, a, v) == [tf EXCEPT !.attrs = Put(@, a, v), !.attrsnil = FALSE]

\* genPrimitive
ToPrimField(F, obj, acc) ==
  IF F.attr \notin DOMAIN acc.tf.at THEN [acc EXCEPT !.dg = Append(@, Diag("writeMissing", F.path))]
  ELSE LET r == ToPrimBody(F, CurAttr(acc.tf, F.attr), acc.tf.at[F.attr], SrcVal(F, obj))
       IN IF r.pn THEN [acc EXCEPT !.pn = TRUE]
          ELSE [tf |-> SetAttr(acc.tf, F.attr, r.v), dg |-> acc.dg \o r.dg, pn |-> FALSE]

\* genObject
ToObjField(F, obj, acc) ==
  IF F.attr \notin DOMAIN acc.tf.at THEN [acc EXCEPT !.dg = Append(@, Diag("writeMissing", F.path))]
  ELSE LET o == acc.tf.at[F.attr]
       IN IF o.k # "obj" THEN [acc EXCEPT !.dg = Append(@, Diag("writeConversion", F.path))]
          ELSE LET r == ToObjBody(F, CurAttr(acc.tf, F.attr), o, SrcVal(F, obj))
               IN IF r.pn THEN [acc EXCEPT !.pn = TRUE, !.dg = @ \o r.dg]
                  ELSE [tf |-> SetAttr(acc.tf, F.attr, r.v), dg |-> acc.dg \o r.dg, pn |-> FALSE]

\* one element of a list / map (the loop body of genListOrMap): the lookup tf.Attrs[name].(ElemValueType)
\* inside the loop always fails, so every element is rebuilt from the element type
ToElem(F, et, a) ==
  IF F.kind \in {"primlist", "primmap"} THEN ToPrimBody(F, VNilIf, et, a)
  ELSE ToObjBody(F, VNilIf, et, a)

RECURSIVE ConcatDg(_, _)
ConcatDg(rs, keys) == IF keys = <<>> THEN <<>> ELSE rs[Head(keys)].dg \o ConcatDg(rs, Tail(keys))

\* genListOrMap
ToCollField(F, obj, acc) ==
  IF F.attr \notin DOMAIN acc.tf.at THEN [acc EXCEPT !.dg = Append(@, Diag("writeMissing", F.path))]
  ELSE
  LET o == acc.tf.at[F.attr]
      islist == F.kind \in {"primlist", "objlist"}
      want == IF islist THEN "list" ELSE "map"
      src == SrcVal(F, obj)
      n == IF src.t = "seq" THEN Len(src.e) ELSE IF src.t = "map" THEN Cardinality(DOMAIN src.m) ELSE 0
      cur == CurAttr(acc.tf, F.attr)
      mkList == Fill(n, VNilIf)
      c0 == IF cur.k = want
            THEN (IF cur.elemsnil
                  THEN (IF islist THEN [cur EXCEPT !.elems = mkList, !.elemsnil = FALSE]
                                  ELSE [cur EXCEPT !.mels = EmptyFn, !.elemsnil = FALSE])
                  ELSE cur)
            ELSE (IF islist THEN VList(TRUE, FALSE, mkList, o.et, FALSE) ELSE VMap(TRUE, FALSE, EmptyFn, o.et, FALSE))
  IN IF o.k # want THEN [acc EXCEPT !.dg = Append(@, Diag("writeConversion", F.path))]
     ELSE IF src.t = "panic" THEN [acc EXCEPT !.pn = TRUE]
     ELSE IF src.t = "nil" THEN
        \* source nil: the loop is skipped altogether
        LET c1 == IF Q("staleOnNilSource") THEN c0
                  ELSE IF islist THEN [c0 EXCEPT !.elems = <<>>] ELSE [c0 EXCEPT !.mels = EmptyFn]
        IN [acc EXCEPT !.tf = SetAttr(@, F.attr, [c1 EXCEPT !.unk = FALSE])]
     ELSE IF F.kind \in {"objlist", "objmap"} /\ o.et.k # "obj" THEN [acc EXCEPT !.pn = TRUE]  \* unchecked assertion
     ELSE IF islist THEN
        LET rs == [i \in 1..n |-> ToElem(F, o.et, src.e[i])]
            c1 == [c0 EXCEPT !.elems = [i \in 1..n |-> rs[i].v], !.null = IF n > 0 THEN FALSE ELSE @, !.unk = FALSE]
        IN IF \E i \in 1..n : rs[i].pn THEN [acc EXCEPT !.pn = TRUE]
           ELSE [tf |-> SetAttr(acc.tf, F.attr, c1), dg |-> acc.dg \o ConcatDg(rs, [i \in 1..n |-> i]), pn |-> FALSE]
     ELSE
        LET keys == DOMAIN src.m
            rs == [key \in keys |-> ToElem(F, o.et, src.m[key])]
            old == IF Q("staleMapKeys") THEN c0.mels ELSE EmptyFn
            c1 == [c0 EXCEPT !.mels = Merge(old, [key \in keys |-> rs[key].v]),
                             !.null = IF n > 0 THEN FALSE ELSE @, !.unk = FALSE]
        IN IF \E key \in keys : rs[key].pn THEN [acc EXCEPT !.pn = TRUE]
           ELSE [tf |-> SetAttr(acc.tf, F.attr, c1), dg |-> acc.dg \o ConcatDg(rs, SetToSeq(keys)), pn |-> FALSE]

\* genCustom: the value returned by the user's CopyTo<S> is stored; the specification leaves the hook
\* uninterpreted (Contract C17 speaks about the call), the stored value is masked in comparisons.
HookValue == VPrim("string", FALSE, FALSE, "HOOK")
ToCustomField(F, obj, acc) ==
  IF F.attr \notin DOMAIN acc.tf.at THEN [acc EXCEPT !.dg = Append(@, Diag("writeMissing", F.path))]
  ELSE IF SrcVal(F, obj).t = "panic" THEN [acc EXCEPT !.pn = TRUE]
  ELSE [acc EXCEPT !.tf = SetAttr(@, F.attr, HookValue)]

ToField(F, obj, acc) ==
  CASE F.kind = "prim" -> ToPrimField(F, obj, acc)
    [] F.kind = "obj" -> ToObjField(F, obj, acc)
    [] F.kind = "custom" -> ToCustomField(F, obj, acc)
    [] OTHER -> ToCollField(F, obj, acc)

ToFields(M, i, obj, acc) ==
  IF i > Len(M.fields) \/ acc.pn THEN acc
  ELSE ToFields(M, i + 1, obj, ToField(M.fields[i], obj, acc))

\* Copy<T>ToTerraform(ctx, obj, &tf)
ToMsg(M, obj, tf) ==
  ToFields(M, 1, obj, [tf |-> [tf EXCEPT !.null = FALSE, !.unk = FALSE, !.attrsnil = FALSE], dg |-> <<>>, pn |-> FALSE])
=============================================================================
