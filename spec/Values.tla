------------------------------- MODULE Values -------------------------------
(***************************************************************************)
(* Abstract value domains shared by the specification, the replay vectors  *)
(* and the traces (DESIGN.md §3.4).  All values are uniformly tagged       *)
(* records so that TLC can compare any two of them:                        *)
(*                                                                         *)
(* GV  Go values      [t |-> "s", s |-> canon]  [t |-> "nil"]              *)
(*                    [t |-> "ptr", p |-> GV]   [t |-> "st", f |-> [n->GV]]*)
(*                    [t |-> "seq", e |-> <<GV>>] [t |-> "map", m |-> [k->GV]] *)
(*                    [t |-> "one", b |-> branch, w |-> GV]                *)
(* TV  Terraform values  prim / obj / list / map / bad / nilif             *)
(* TT  Terraform types   prim / obj / list / map / none                    *)
(*                                                                         *)
(* Scalars are opaque canonical strings (decimal integers, hex-floats with *)
(* "0" and "-0", hex-encoded strings and bytes, true/false, RFC3339Nano    *)
(* times, nanosecond durations).                                           *)
(***************************************************************************)
EXTENDS Naturals, Sequences, FiniteSets, TLC

Nil == [t |-> "nil"]
Sc(s) == [t |-> "s", s |-> s]
Ptr(v) == [t |-> "ptr", p |-> v]
St(f) == [t |-> "st", f |-> f]
SeqV(e) == [t |-> "seq", e |-> e]
MapV(m) == [t |-> "map", m |-> m]
One(b, w) == [t |-> "one", b |-> b, w |-> w]

IsNil(v) == v.t = "nil"

\* type classes of scalars: what the converters' semantics depend on
Classes == {"int", "float", "bool", "string", "bytes", "enum", "time", "duration"}

ZeroTime == "0001-01-01T00:00:00Z"

\* the zero value of the Go type
ZeroScalar(cls) ==
  CASE cls \in {"int", "enum", "duration"} -> "0"
    [] cls = "float" -> "0"
    [] cls = "bool" -> "false"
    [] cls \in {"string", "bytes"} -> ""
    [] cls = "time" -> ZeroTime
    [] OTHER -> ""

\* values that compare equal to the zero literal in Go (`float64(x) == 0` holds for -0)
ZeroSet(cls) == IF cls = "float" THEN {"0", "-0"} ELSE {ZeroScalar(cls)}

\* Terraform primitive type of a class
TfTyOf(cls) ==
  CASE cls \in {"int", "enum"} -> "int64"
    [] cls = "float" -> "float64"
    [] cls = "bool" -> "bool"
    [] cls \in {"string", "bytes"} -> "string"
    [] cls = "time" -> "time"
    [] cls = "duration" -> "duration"
    [] OTHER -> "none"

\* zero payload of a Terraform primitive (what ValueFromTerraform(null) leaves in .Value)
ZeroOfTf(ty) ==
  CASE ty = "int64" -> "0"
    [] ty = "float64" -> "0"
    [] ty = "bool" -> "false"
    [] ty = "string" -> ""
    [] ty = "time" -> ZeroTime
    [] ty = "duration" -> "0"
    [] ty = "ovrint64" -> "0"
    [] OTHER -> ""

---------------------------------------------------------------------------
\* Terraform types and values

TPrim(ty) == [k |-> "prim", ty |-> ty]
TObj(at) == [k |-> "obj", at |-> at]
TList(et) == [k |-> "list", et |-> et]
TMap(et) == [k |-> "map", et |-> et]
TNone == [k |-> "none"]

VPrim(ty, null, unk, v) == [k |-> "prim", ty |-> ty, null |-> null, unk |-> unk, v |-> v]
VObj(null, unk, attrs, at, attrsnil) ==
  [k |-> "obj", null |-> null, unk |-> unk, attrs |-> attrs, at |-> at, attrsnil |-> attrsnil]
VList(null, unk, elems, et, elemsnil) ==
  [k |-> "list", null |-> null, unk |-> unk, elems |-> elems, et |-> et, elemsnil |-> elemsnil]
VMap(null, unk, mels, et, elemsnil) ==
  [k |-> "map", null |-> null, unk |-> unk, mels |-> mels, et |-> et, elemsnil |-> elemsnil]
VBad == [k |-> "bad"]
VNilIf == [k |-> "nilif"]

HasFlags(tv) == tv.k \in {"prim", "obj", "list", "map"}
Known(tv) == HasFlags(tv) /\ ~tv.null /\ ~tv.unk

\* the empty function; JSON {} and [] both deserialise to it
EmptyFn == <<>>

\* An object that carries attribute types and no values
EmptyObject(at) == VObj(FALSE, FALSE, EmptyFn, at, FALSE)

\* What the framework's ValueFromTerraform produces for a null of type tt
RECURSIVE NullOf(_)
NullOf(tt) ==
  CASE tt.k = "prim" -> VPrim(tt.ty, TRUE, FALSE, ZeroOfTf(tt.ty))
    [] tt.k = "obj" -> VObj(TRUE, FALSE, EmptyFn, tt.at, FALSE)
    [] tt.k = "list" -> VList(TRUE, FALSE, <<>>, tt.et, TRUE)
    [] tt.k = "map" -> VMap(TRUE, FALSE, EmptyFn, tt.et, TRUE)
    [] OTHER -> VNilIf

\* the type a value claims to have
RECURSIVE TypeOf(_)
TypeOf(tv) ==
  CASE tv.k = "prim" -> TPrim(tv.ty)
    [] tv.k = "obj" -> TObj(tv.at)
    [] tv.k = "list" -> TList(tv.et)
    [] tv.k = "map" -> TMap(tv.et)
    [] OTHER -> TNone

\* tv is a value of exactly type tt, at every depth of its non-null part; object levels may lack
\* the attributes in `skip` (injected ones: the converters never touch them)
RECURSIVE Conforms(_, _)
Conforms(tv, tt) ==
  CASE tt.k = "prim" -> tv.k = "prim" /\ tv.ty = tt.ty
    [] tt.k = "obj" -> /\ tv.k = "obj" /\ tv.at = tt.at
                       /\ (Known(tv) => \A n \in DOMAIN tv.attrs : n \in DOMAIN tt.at /\ Conforms(tv.attrs[n], tt.at[n]))
    [] tt.k = "list" -> /\ tv.k = "list" /\ tv.et = tt.et
                        /\ (Known(tv) => \A i \in DOMAIN tv.elems : Conforms(tv.elems[i], tt.et))
    [] tt.k = "map" -> /\ tv.k = "map" /\ tv.et = tt.et
                       /\ (Known(tv) => \A key \in DOMAIN tv.mels : Conforms(tv.mels[key], tt.et))
    [] OTHER -> FALSE

\* nothing unknown at any depth (attributes named in skipTop at the top level aside)
RECURSIVE NoUnknown(_)
NoUnknown(tv) ==
  CASE tv.k = "prim" -> ~tv.unk
    [] tv.k = "obj" -> ~tv.unk /\ \A n \in DOMAIN tv.attrs : NoUnknown(tv.attrs[n])
    [] tv.k = "list" -> ~tv.unk /\ \A i \in DOMAIN tv.elems : NoUnknown(tv.elems[i])
    [] tv.k = "map" -> ~tv.unk /\ \A key \in DOMAIN tv.mels : NoUnknown(tv.mels[key])
    [] OTHER -> TRUE

\* function update / extension helpers (TLC: records and functions with string domains coincide)
Put(f, key, val) == [x \in (DOMAIN f) \cup {key} |-> IF x = key THEN val ELSE f[x]]
Drop(f, key) == [x \in (DOMAIN f) \ {key} |-> f[x]]
Has(f, key) == key \in DOMAIN f

Fill(n, v) == [i \in 1..n |-> v]

=============================================================================
