------------------------------ MODULE GenShapes ------------------------------
(***************************************************************************)
(* Shape families of the generator-level properties (DESIGN.md §4.4):      *)
(* descriptors x configurations whose plugin RUNS are observed (exit       *)
(* status, response, file, functions, compile result, schema).             *)
(***************************************************************************)
EXTENDS Shapes, SequencesExt

ScalarTys == <<"double", "float", "int64", "uint64", "int32", "fixed64", "fixed32", "bool", "string", "bytes",
               "uint32", "sfixed32", "sfixed64", "sint32", "sint64">>
Names15 == <<"Fa", "Fb", "Fc", "Fd", "Fe", "Ff", "Fg", "Fh", "Fi", "Fj", "Fk", "Fl", "Fm", "Fn", "Fo">>

AllOne == Msg("Root", [i \in 1..15 |-> Fld(Names15[i], i, ScalarTys[i])], <<>>)
AllRep == Msg("Root", [i \in 1..15 |-> Rep(Fld(Names15[i], i, ScalarTys[i]))], <<>>)
\* map<string, bytes> is kept in a shape of its own
NoBytes == SelectSeq([i \in 1..15 |-> i], LAMBDA i : ScalarTys[i] # "bytes")
AllMap == Msg("Root", [j \in 1..14 |-> MapOf(Fld(Names15[NoBytes[j]], NoBytes[j], ScalarTys[NoBytes[j]]))], <<>>)
AllOneof == Msg("Root", [i \in 1..15 |-> InOneof(Fld(Names15[i], i, ScalarTys[i]), "Grp")], <<"Grp">>)

With(id, msgs, cfg) == Shape(id, Desc(msgs), cfg)
Ovr(kvs) == [BaseCfg EXCEPT !.nameoverrides = kvs]
KV(k, v) == [k |-> k, v |-> v]

TypeTableShapes == <<
  With("g.all.one", <<AllOne>>, BaseCfg),
  With("g.all.rep", <<AllRep>>, BaseCfg),
  With("g.all.map", <<AllMap>>, BaseCfg),
  With("g.all.oneof", <<AllOneof>>, BaseCfg),
  With("g.all.one.sorted", <<AllOne>>, [BaseCfg EXCEPT !.sort = TRUE]),
  With("g.map.bytes", <<Msg("Root", <<MapOf(Fld("Tags", 1, "bytes"))>>, <<>>)>>, BaseCfg) >>

NamingShapes == <<
  Single("n.camel", Fld("FooBar", 1, "string")),
  Single("n.snake", Fld("foo_bar", 1, "string")),
  \* lower_snake names with one-letter words: snake_case(UpperCamel(name)) is NOT the name again
  With("n.snake.letters", <<Msg("Root", <<Fld("a_b", 1, "string"), Rep(Fld("x_y_z", 2, "int32")), Fld("max_t_t_l", 3, "int64")>>, <<>>)>>, BaseCfg),
  Single("n.json.empty", Json(Fld("Str", 1, "string"), "")),
  Single("n.json.dash", Json(Fld("Str", 1, "string"), "-")),
  Single("n.json.dashomit", Json(Fld("Str", 1, "string"), "-,omitempty")),
  Single("n.json.omit", Json(Fld("Str", 1, "string"), ",omitempty")),
  Single("n.json.name", Json(Fld("Str", 1, "string"), "jname")),
  Single("n.json.nameomit", Json(Fld("FooBar", 1, "string"), "jname,omitempty")),
  \* SEVERAL fields of one message tagged "-" (declared in it and flattened in from an embedded message): each falls back to
  \* its own snake_case name
  With("n.json.dash2", <<Msg("Inner", <<Json(Fld("Flag", 1, "bool"), "-"), Fld("Zed", 2, "string")>>, <<>>),
                         Msg("Root", <<Json(Fld("Str", 1, "string"), "-"), Json(Fld("Raw", 2, "bytes"), "-,omitempty"), Fld("Num", 3, "int32"),
                                       NonNull(Embed(MsgF("Inner", 4, "Inner")))>>, <<>>)>>, BaseCfg),
  \* names with dashes, from a json tag and from name_overrides, at the top and in a nested message
  With("n.kebab", <<Msg("Leaf", <<Json(Fld("Str", 1, "string"), "burst-size,omitempty"), Fld("Num", 2, "int32")>>, <<>>),
                    Msg("Root", <<Json(Fld("FooBar", 1, "string"), "max-age"), Fld("Num", 2, "int64"), MsgF("Sub", 3, "Leaf"), Rep(MsgF("Subs", 4, "Leaf"))>>, <<>>)>>,
       Ovr(<<KV("Root.Num", "x-trace-id")>>)),
  \* an EMBEDDED message field that carries a json name of its own: embedded messages are flattened whatever their tag says
  With("n.embed.json", <<Msg("Inner", <<Fld("Flag", 1, "bool"), Fld("Zed", 2, "string")>>, <<>>), Msg("Mid", <<Fld("Flt", 1, "float")>>, <<>>),
                         Msg("Root", <<Fld("Str", 1, "string"), Json(NonNull(Embed(MsgF("Inner", 2, "Inner"))), "meta,omitempty"),
                                       Json(Embed(MsgF("Mid", 3, "Mid")), "mid")>>, <<>>)>>, BaseCfg),
  With("n.ovr.path", <<Msg("Root", <<Fld("Str", 1, "string")>>, <<>>)>>, Ovr(<<KV("Root.Str", "ovr_path")>>)),
  With("n.ovr.path.json", <<Msg("Root", <<Json(Fld("Str", 1, "string"), "jname")>>, <<>>)>>, Ovr(<<KV("Root.Str", "ovr_path")>>)),
  With("n.ovr.tn", <<Leaf, Msg("Root", <<MsgF("Sub", 1, "Leaf"), MsgF("Sub2", 2, "Leaf")>>, <<>>)>>, Ovr(<<KV("Leaf.Str", "ovr_tn")>>)),
  With("n.ovr.nested.path", <<Leaf, Msg("Root", <<MsgF("Sub", 1, "Leaf"), MsgF("Sub2", 2, "Leaf")>>, <<>>)>>, Ovr(<<KV("Root.Sub.Str", "ovr_path")>>)),
  With("n.ovr.both", <<Leaf, Msg("Root", <<MsgF("Sub", 1, "Leaf"), MsgF("Sub2", 2, "Leaf")>>, <<>>)>>,
       Ovr(<<KV("Leaf.Str", "ovr_tn"), KV("Root.Sub.Str", "ovr_path")>>)),
  With("n.ovr.list.elem", <<Leaf, Msg("Root", <<Rep(MsgF("Subs", 1, "Leaf")), MapOf(MsgF("Dict", 2, "Leaf"))>>, <<>>)>>,
       Ovr(<<KV("Root.Subs.Str", "ovr_list"), KV("Root.Dict.Str", "ovr_map")>>)),
  \* the same key forms when the generated code lives in a package of its own (default_package_name set): a Message.field key
  \* names the message, never its Go package
  With("n.ovr.tn.sep", <<Leaf, Msg("Root", <<MsgF("Sub", 1, "Leaf"), Rep(MsgF("Subs", 2, "Leaf")), Fld("Str", 3, "string")>>, <<>>)>>,
       [Ovr(<<KV("Leaf.Str", "ovr_tn"), KV("Root.Sub.Num", "ovr_path"), KV("Root.Str", "ovr_root")>>) EXCEPT !.separate = TRUE]) >>

\* the type table decides by the WHOLE cast type name: a named integer whose name merely ends in the configured
\* duration cast type (or in "Duration" / "Time") is an integer
CastBuiltin == With("t.cast.builtin", <<Msg("Root", <<Cast(Fld("Num", 1, "int64"), "int"), Rep(Cast(Fld("Items", 2, "uint32"), "uint16")),
                                                       Cast(Fld("Fa", 3, "int32"), "int8"), Cast(Fld("Fb", 4, "uint64"), "uint"),
                                                       InOneof(Cast(Fld("BranchA", 5, "int64"), "int"), "Grp"), InOneof(Fld("BranchB", 6, "string"), "Grp")>>, <<"Grp">>)>>, BaseCfg)
CastNameShapes == <<
  With("t.cast.suffix", <<Msg("Root", <<Cast(Fld("Num", 1, "int64"), "BlockDuration"), Cast(Fld("Dur", 2, "int64"), "Duration"),
                                        Cast(Fld("Fa", 3, "int64"), "XtimeDuration"), Cast(Fld("Fb", 4, "int32"), "MyTime"),
                                        Rep(Cast(Fld("Fc", 5, "int64"), "BlockDuration"))>>, <<>>)>>,
       [BaseCfg EXCEPT !.durationcustom = "Duration"]),
  \* floating point fields cast to types whose names merely END in the configured duration type: numbers all the same
  With("t.cast.fracdur", <<Msg("Root", <<Cast(Fld("Flt", 1, "double"), "FracDuration"), Rep(Cast(Fld("Items", 2, "double"), "FracDuration")),
                                         Cast(Fld("Fa", 3, "float"), "XDuration"), Cast(Fld("Dur", 4, "int64"), "Duration")>>, <<>>)>>,
       [BaseCfg EXCEPT !.durationcustom = "Duration"]),
  With("t.cast.nocustom", <<Msg("Root", <<Cast(Fld("Num", 1, "int64"), "BlockDuration"), Cast(Fld("Dur", 2, "int64"), "Duration")>>, <<>>)>>, BaseCfg),
  \* casts to PREDECLARED Go types that gogo itself never emits for a proto scalar (int, uint16, int8, uint): built-in all the
  \* same, never qualified with the struct package
  CastBuiltin >>

GenMapShapes == TypeTableShapes \o <<Dotted(TypeTableShapes[1]), Dotted(TypeTableShapes[3])>> \o NamingShapes \o CastNameShapes \o AllSessionShapes

---------------------------------------------------------------------------
\* C10: flags, validators, plan modifiers, comments, injected fields, placeholder

CL(pre, w, post) == [pre |-> pre, w |-> w, post |-> post]
Commented(f, c) == [f EXCEPT !.comment = c]

\* comment patterns: single line; two lines; leading / trailing blanks; CRLF; tab-indented continuation;
\* an empty line in the middle; trailing empty lines
Com1 == <<CL(" ", <<"Str", "is", "a", "string">>, "")>>
Com2 == <<CL(" ", <<"Str", "is", "a", "string">>, ""), CL(" ", <<"with", "a", "continuation">>, "")>>
Com3 == <<CL("   ", <<"leading", "and", "trailing">>, "   ")>>
Com4 == <<CL(" ", <<"line", "one">>, "\r"), CL(" ", <<"line", "two">>, "\r")>>
Com5 == <<CL(" ", <<"first">>, ""), CL("\t  ", <<"indented", "second">>, " ")>>
Com6 == <<CL(" ", <<"before", "the", "gap">>, ""), CL("", <<>>, ""), CL(" ", <<"after", "it">>, "")>>
Com7 == <<CL(" ", <<"ends", "with", "blank", "lines">>, ""), CL("", <<>>, ""), CL(" ", <<>>, "")>>
\* a comment that talks about a "package": the text of a Description literal looks like a package clause to a careless rewriter
ComPkg == <<CL(" ", <<"names", "the", "package", "repository", "of", "the", "value">>, "")>>
Comments == <<Com1, Com2, Com3, Com4, Com5, Com6, Com7>>

LeafC(c) == Msg("Leaf", <<Commented(Fld("Str", 1, "string"), c), Commented(Fld("Num", 2, "int32"), Com1)>>, <<>>)
FlagRoot(c) == Msg("Root", <<Commented(Fld("Str", 1, "string"), c), Commented(MsgF("Sub", 2, "Leaf"), Com2),
                            Commented(Rep(MsgF("Subs", 3, "Leaf")), Com3), Commented(MapOf(MsgF("Dict", 4, "Leaf")), Com4),
                            Commented(Rep(Fld("Items", 5, "string")), Com5), NonNull(Embed(MsgF("Inner", 6, "Inner"))),
                            MsgF("Nothing", 7, "Empty")>>, <<>>)
InnerC == Msg("Inner", <<Commented(Fld("Flag", 1, "bool"), Com6)>>, <<>>)
FlagDesc(c) == Desc(<<LeafC(c), InnerC, EmptyM, FlagRoot(c)>>)

Inj(name, ty, req, comp, opt) == [name |-> name, type |-> ty, required |-> req, computed |-> comp, optional |-> opt, validators |-> <<>>, planmods |-> <<>>]
\* ... with validators / plan modifiers of its own (tags as for the fields)
InjVP(name, ty, req, comp, opt, vs, pms) == [Inj(name, ty, req, comp, opt) EXCEPT !.validators = vs, !.planmods = pms]

\* key sets for the flag lists: full paths, Message.field keys, mixtures
FlagKeySets == << <<>>, <<"Root.Str">>, <<"Leaf.Str">>, <<"Root.Sub.Str">>, <<"Root.Subs">>, <<"Root.Str", "Root.Dict.Num", "Inner.Flag">>,
                  <<"Root.Sub", "Leaf.Num">> >>

FlagCfg(r, c, s, u) == [BaseCfg EXCEPT !.required = FlagKeySets[r], !.computed = FlagKeySets[c], !.sensitive = FlagKeySets[s], !.usfu = u]

\* messages of ANOTHER file of the same package (see CrossFileShapes below)
XDep == [pkg |-> "lim", share |-> TRUE,
         msgs |-> <<Msg("Extra", <<Commented(Fld("Raw", 1, "bytes"), Com2), Commented(Fld("Str", 2, "string"), Com3)>>, <<>>)>>]
XRoot == Msg("Root", <<Commented(Fld("Str", 1, "string"), Com1), Commented(MsgF("Sub", 2, "Extra"), Com4), Rep(MsgF("Subs", 3, "Extra"))>>, <<>>)
XFront == Msg("Other", <<Commented(Fld("Num", 1, "int32"), Com5), Commented(Fld("Flt", 2, "float"), Com6)>>, <<>>)

CommentShapes == [i \in DOMAIN Comments |-> Shape("c10.comment." \o ToString(i), FlagDesc(Comments[i]), BaseCfg)]

FlagShapesQuick == <<
  Shape("c10.flags.1", FlagDesc(Com1), FlagCfg(2, 1, 1, FALSE)),
  Shape("c10.flags.2", FlagDesc(Com1), FlagCfg(1, 3, 1, FALSE)),
  Shape("c10.flags.3", FlagDesc(Com1), FlagCfg(1, 1, 4, FALSE)),
  Shape("c10.flags.4", FlagDesc(Com1), FlagCfg(6, 6, 6, TRUE)),
  Shape("c10.flags.5", FlagDesc(Com1), FlagCfg(7, 2, 5, TRUE)),
  Shape("c10.flags.6", FlagDesc(Com1), FlagCfg(3, 7, 2, TRUE)),
  Shape("c10.usfu.on", FlagDesc(Com1), FlagCfg(1, 6, 1, TRUE)),
  Shape("c10.usfu.explicit", FlagDesc(Com1), [FlagCfg(1, 6, 1, TRUE) EXCEPT !.planmodifiers = <<[k |-> "Root.Str", v |-> <<"2">>]>>]),
  Shape("c10.val.1", FlagDesc(Com1), [BaseCfg EXCEPT !.validators = <<[k |-> "Root.Str", v |-> <<"1">>], [k |-> "Leaf.Num", v |-> <<"2", "1">>]>>,
                                                    !.planmodifiers = <<[k |-> "Root.Sub.Str", v |-> <<"1", "3">>], [k |-> "Leaf.Str", v |-> <<"2">>]>>]),
  Shape("c10.val.2", FlagDesc(Com1), [BaseCfg EXCEPT !.validators = <<[k |-> "Root.Subs", v |-> <<"3", "3">>], [k |-> "Inner.Flag", v |-> <<"1">>]>>,
                                                    !.planmodifiers = <<[k |-> "Root.Items", v |-> <<"1">>]>>, !.sort = TRUE]),
  Shape("c10.inj.1", FlagDesc(Com1), [BaseCfg EXCEPT !.injected = <<[k |-> "Root", v |-> <<Inj("id", "string", FALSE, TRUE, FALSE)>>]>>]),
  Shape("c10.inj.2", FlagDesc(Com1), [BaseCfg EXCEPT !.injected = <<[k |-> "Root", v |-> <<Inj("id", "string", FALSE, TRUE, FALSE), Inj("rev", "int64", TRUE, FALSE, FALSE)>>],
                                                                    [k |-> "Root.Sub", v |-> <<Inj("extra", "bool", FALSE, FALSE, TRUE)>>],
                                                                    [k |-> "Root.Subs", v |-> <<Inj("idx", "int64", FALSE, TRUE, TRUE)>>]>>]),
  \* injected fields with plan modifiers only, validators only, both (the usual computed id with UseStateForUnknown)
  Shape("c10.inj.pm", FlagDesc(Com1), [BaseCfg EXCEPT !.injected = <<[k |-> "Root", v |-> <<InjVP("id", "string", FALSE, TRUE, FALSE, <<>>, <<"2">>)>>],
                                                                      [k |-> "Root.Sub", v |-> <<InjVP("rev", "int64", FALSE, TRUE, TRUE, <<>>, <<"1", "3">>)>>]>>]),
  Shape("c10.inj.val", FlagDesc(Com1), [BaseCfg EXCEPT !.injected = <<[k |-> "Root", v |-> <<InjVP("rev", "int64", FALSE, FALSE, TRUE, <<"1">>, <<>>),
                                                                                            InjVP("tag", "string", FALSE, TRUE, TRUE, <<"3", "1">>, <<"1", "3">>)>>]>>]),
  \* injected fields for messages WITHOUT fields (a selected one and a nested one): the placeholder stays
  [Shape("c10.inj.empty", Desc(<<EmptyM, Msg("Root", <<Fld("Str", 1, "string"), MsgF("Nothing", 2, "Empty"), Rep(MsgF("Subs", 3, "Empty"))>>, <<>>)>>),
         [BaseCfg EXCEPT !.types = <<"Root", "Empty">>,
                         !.injected = <<[k |-> "Empty", v |-> <<Inj("id", "string", FALSE, TRUE, FALSE)>>],
                                        [k |-> "Root.Nothing", v |-> <<Inj("rev", "int64", FALSE, FALSE, TRUE)>>]>>]) EXCEPT !.run = "c10.inj.empty"],
  [Shape("c10.inj.empty.Empty", Desc(<<EmptyM, Msg("Root", <<Fld("Str", 1, "string"), MsgF("Nothing", 2, "Empty"), Rep(MsgF("Subs", 3, "Empty"))>>, <<>>)>>),
         [BaseCfg EXCEPT !.types = <<"Root", "Empty">>,
                         !.injected = <<[k |-> "Empty", v |-> <<Inj("id", "string", FALSE, TRUE, FALSE)>>],
                                        [k |-> "Root.Nothing", v |-> <<Inj("rev", "int64", FALSE, FALSE, TRUE)>>]>>]) EXCEPT !.run = "c10.inj.empty", !.root = "Empty"] >>

\* custom-type fields get the same flags, validators and plan modifiers (through the user's GenSchema hook)
CustomFlagShapes == <<
  Shape("c10.custom", Desc(<<Msg("Root", <<Commented(Fld("Cust", 1, "string"), Com2), Fld("Str", 2, "string"), Rep(Fld("Custs", 3, "bool"))>>, <<>>)>>),
        [BaseCfg EXCEPT !.customtypes = <<[k |-> "Root.Cust", v |-> "CustC"], [k |-> "Root.Custs", v |-> "CustL"]>>,
                        !.computed = <<"Root.Cust">>, !.sensitive = <<"Root.Custs">>, !.required = <<"Root.Custs">>, !.usfu = TRUE,
                        !.validators = <<[k |-> "Root.Cust", v |-> <<"1", "2">>]>>, !.planmodifiers = <<[k |-> "Root.Custs", v |-> <<"3">>]>>]) >>

\* thorough: the full product of the flag key sets
FlagShapesFull ==
  LET combos == SetToSeq({<<r, c, s, u>> : r \in DOMAIN FlagKeySets, c \in DOMAIN FlagKeySets, s \in DOMAIN FlagKeySets, u \in BOOLEAN})
  IN [i \in DOMAIN combos |-> Shape("c10.full." \o ToString(i), FlagDesc(Com1), FlagCfg(combos[i][1], combos[i][2], combos[i][3], combos[i][4]))]

\* descriptions and flags of a message declared in another file of the package, with an unrelated message in front
CrossFileFlagShapes == <<
  Shape("c10.xfile", [pkg |-> "tp", msgs |-> <<XFront, XRoot>>, deps |-> <<XDep>>],
        [BaseCfg EXCEPT !.required = <<"Extra.Raw">>, !.sensitive = <<"Root.Subs.Str">>, !.computed = <<"Root.Sub.Str">>, !.usfu = TRUE]) >>

\* comments of fields declared AFTER an excluded field (no attribute) and after an embedded message (two attributes)
IndexShapes == <<
  Shape("c10.index", Desc(<<Msg("Inner", <<Commented(Fld("Flag", 1, "bool"), Com6), Fld("Num", 2, "int32")>>, <<>>),
                            Msg("Root", <<Commented(Fld("Extra", 1, "string"), Com4), Commented(Fld("Str", 2, "string"), Com1),
                                          NonNull(Embed(MsgF("Inner", 3, "Inner"))), Commented(Rep(Fld("Items", 4, "string")), Com3),
                                          Commented(Fld("Zed", 5, "string"), Com2)>>, <<>>)>>),
        [BaseCfg EXCEPT !.exclude = <<"Root.Extra">>]) >>

\* flags on the branches of a oneof group (a scalar and a message branch): listed means set, whatever the field kind
OneofFlagShapes == <<
  Shape("c10.oneof", Desc(<<Leaf, Msg("Root", <<InOneof(Commented(Fld("BranchA", 1, "string"), Com1), "Grp"), InOneof(MsgF("BranchB", 2, "Leaf"), "Grp"),
                                                InOneof(Fld("BranchC", 3, "int32"), "Grp"), Fld("Num", 4, "int32")>>, <<"Grp">>)>>),
        [BaseCfg EXCEPT !.required = <<"Root.BranchA", "Root.BranchB">>, !.computed = <<"Root.BranchC", "Root.BranchB.Str">>,
                        !.sensitive = <<"Root.BranchA", "Root.BranchC">>, !.usfu = TRUE,
                        !.validators = <<[k |-> "Root.BranchA", v |-> <<"1">>]>>, !.planmodifiers = <<[k |-> "Root.BranchB", v |-> <<"2">>]>>]) >>

GenFlagShapes0(long) == OneofFlagShapes \o CommentShapes \o FlagShapesQuick \o CustomFlagShapes \o CrossFileFlagShapes \o IndexShapes \o (IF long THEN FlagShapesFull ELSE <<>>)

---------------------------------------------------------------------------
\* C12: only the selected types, independent of the rest of the request

\* "Leaf Leaf = 3": the usual gogo style of naming a field after its type, the type being selected as well
\* (Root also EMBEDS a message that is never selected, by value; Third embeds it by pointer: the embedded message is built
\* along the path of the message that embeds it, and it is not a type of its own in the output)
SelInner == Msg("Inner", <<Fld("Flag", 1, "bool"), Fld("Zed", 2, "string")>>, <<>>)
SelRoot == Msg("Root", <<Fld("Str", 1, "string"), MsgF("Sub", 2, "Leaf"), MsgF("Leaf", 3, "Leaf"), NonNull(Embed(MsgF("Inner", 4, "Inner")))>>, <<>>)
SelOther == Msg("Other", <<Fld("Num", 1, "int32"), Rep(Fld("Items", 2, "string")), InOneof(Fld("BranchA", 3, "string"), "Grp"), InOneof(MsgF("BranchB", 4, "Leaf"), "Grp")>>, <<"Grp">>)
SelThird == Msg("Third", <<Fld("Num", 1, "int32"), MapOf(MsgF("Dict", 2, "Leaf")), Embed(MsgF("Inner", 3, "Inner"))>>, <<>>)
SelExtra == Msg("Extra", <<Fld("Raw", 1, "bytes"), MsgF("Sub", 2, "Leaf")>>, <<>>)
SelMsgs == <<Leaf, SelInner, SelRoot, SelOther, SelThird>>
SelNames == <<"Leaf", "Root", "Other", "Third">>
SelDep == [pkg |-> "depx", share |-> FALSE, msgs |-> <<Msg("Poison", <<Fld("Str", 1, "string")>>, <<>>), Msg("Bad", <<Fld("Num", 1, "int64")>>, <<>>)>>]

\* "rev": the same messages declared in the opposite order (a type declared after the message that uses it)
SelDesc(ext) == [pkg |-> "tp",
                 msgs |-> IF ext = "msg" THEN SelMsgs \o <<SelExtra>> ELSE IF ext = "rev" THEN Reverse(SelMsgs) ELSE SelMsgs,
                 deps |-> IF ext = "dep" THEN <<SelDep>> ELSE <<>>]

NonEmptySubsets(S) == (SUBSET S) \ {{}}
SelRuns(sort, exts) == SetToSeq({<<T, e>> : T \in NonEmptySubsets({1, 2, 3, 4}), e \in exts})

\* one shape per (run, selected root); the functions of a type must not depend on the run (same group)
SelShapesOf(sort, exts) ==
  LET runs == SelRuns(sort, exts)
      srt == IF sort THEN "s" ELSE "u"
      perRun(i) == LET T == runs[i][1]
                       types == SetToSeq({SelNames[k] : k \in T})
                       cfg == [BaseCfg EXCEPT !.types = types, !.sort = sort]
                   IN [j \in DOMAIN types |->
                        [Shape("c12." \o srt \o "." \o ToString(i) \o "." \o types[j], SelDesc(runs[i][2]), cfg) EXCEPT
                           !.root = types[j], !.run = "c12." \o srt \o "." \o ToString(i), !.group = "c12." \o srt,
                           !.gchecks = <<GCheck("fn", "C12", "C12.text_independent")>>]]
  IN FlattenSeq([i \in DOMAIN runs |-> perRun(i)])

\* a selected type with a field whose message type is declared in ANOTHER file of the same package (comments, paths
\* and names of such a message are looked up in the file that declares it); with and without an unrelated message in
\* FRONT of the selected one (every index of the generated file shifts)
CrossFileShapes ==
  LET mk(id, msgs, sort) ==
        [Shape("c12.x." \o id, [pkg |-> "tp", msgs |-> msgs, deps |-> <<XDep>>], [BaseCfg EXCEPT !.sort = sort]) EXCEPT
           !.group = "c12.x", !.gchecks = <<GCheck("fn", "C12", "C12.text_independent")>>]
  IN <<mk("plain", <<XRoot>>, FALSE), mk("front", <<XFront, XRoot>>, FALSE), mk("back.sorted", <<XRoot, XFront>>, TRUE)>>

\* two selected types which both reach a message WITHOUT fields (its placeholder attribute carries a path per use)
EmptyUseMsgs == <<EmptyM, Msg("Root", <<Fld("Str", 1, "string"), MsgF("Nothing", 2, "Empty")>>, <<>>),
                  Msg("Other", <<Fld("Num", 1, "int32"), NonNull(MsgF("Nothing", 2, "Empty")), Rep(MsgF("Subs", 3, "Empty"))>>, <<>>)>>
EmptyUseShapes ==
  LET mk(id, types, root) ==
        [Shape("c12.e." \o id \o "." \o root, Desc(EmptyUseMsgs), [BaseCfg EXCEPT !.types = types]) EXCEPT
           !.root = root, !.run = "c12.e." \o id, !.group = "c12.e", !.gchecks = <<GCheck("fn", "C12", "C12.text_independent")>>]
  IN <<mk("1", <<"Root">>, "Root"), mk("2", <<"Other">>, "Other"), mk("3", <<"Root", "Other">>, "Root"), mk("3", <<"Root", "Other">>, "Other"),
       mk("4", <<"Other", "Root", "Empty">>, "Root"), mk("4", <<"Other", "Root", "Empty">>, "Other")>>

\* unselected, unreferenced messages whose NAMES are a proper suffix / prefix of the selected type's name
NameRelShapes ==
  LET fb == Msg("FooBar", <<Fld("Str", 1, "string"), Fld("Num", 2, "int32")>>, <<>>)
      mk(id, msgs) == [Shape("c12.n." \o id, Desc(msgs), [BaseCfg EXCEPT !.types = <<"FooBar">>]) EXCEPT
                         !.root = "FooBar", !.group = "c12.n", !.gchecks = <<GCheck("fn", "C12", "C12.text_independent")>>]
      le == Msg("LogEntry", <<Fld("Str", 1, "string"), MapOf(Fld("Tags", 2, "string"))>>, <<>>)
      mkT(id, msgs, types, root) == [Shape("c12.n." \o id, Desc(msgs), [BaseCfg EXCEPT !.types = types]) EXCEPT
                         !.root = root, !.run = "c12.n.entry", !.group = "c12.n.entry", !.gchecks = <<GCheck("fn", "C12", "C12.text_independent")>>]
  IN <<mkT("entry.LogEntry", <<le, fb>>, <<"LogEntry", "FooBar">>, "LogEntry"), mkT("entry.FooBar", <<le, fb>>, <<"LogEntry", "FooBar">>, "FooBar"),
       mk("alone", <<fb>>),
       mk("rel", <<Msg("Bar", <<Fld("Num", 1, "int32")>>, <<>>), fb, Msg("Foo", <<Fld("Flag", 1, "bool")>>, <<>>)>>)>>

\* messages DECLARED INSIDE others: the selected type's nested message alone, and next to an unrelated, unselected message
\* declared in front of it whose own nested message has the same simple name (.tp.Outer.Leaf / .tp.Root.Leaf: the full
\* names and the Go names do not clash)
NestedDesc(msgs, kvs) == [pkg |-> "tp", msgs |-> msgs, deps |-> <<>>, nested |-> kvs]
NestedShapes ==
  LET leaf == Msg("Leaf", <<Fld("Str", 1, "string"), Fld("Num", 2, "int32")>>, <<>>)
      root == Msg("Root", <<Fld("Str", 1, "string"), MsgF("Sub", 2, "Leaf"), Rep(MsgF("Subs", 3, "Leaf"))>>, <<>>)
      mk(id, d) == [Shape("c12.nest." \o id, d, BaseCfg) EXCEPT !.group = "c12.nest", !.gchecks = <<GCheck("fn", "C12", "C12.text_independent")>>]
  IN <<mk("alone", NestedDesc(<<leaf, root>>, <<KV("Leaf", "Root")>>)),
       mk("clash", NestedDesc(<<Msg("Extra", <<Fld("Flag", 1, "bool")>>, <<>>), Msg("Outer", <<Fld("Num", 1, "int32")>>, <<>>), leaf, root>>,
                              <<KV("Extra", "Outer:Leaf"), KV("Leaf", "Root")>>))>>

\* a selected type with a custom-type field (by option / by configuration) in front of one without: whatever the first one
\* makes the generator remember must not leak into the functions of the second
CustSelShapes ==
  LET cust == Msg("Root", <<Fld("Str", 1, "string"), [NonNull(Fld("Cust", 2, "string")) EXCEPT !.custom = "CustT"], Fld("Extra", 3, "string")>>, <<>>)
      other == Msg("Other", <<Fld("Flag", 1, "bool"), Fld("Num", 2, "int32")>>, <<>>)
      mk(id, types, root) == [Shape("c12.cust." \o id \o "." \o root, Desc(<<cust, other>>), [BaseCfg EXCEPT !.types = types, !.customtypes = <<KV("Root.Extra", "CustX")>>]) EXCEPT
                                !.root = root, !.run = "c12.cust." \o id, !.group = "c12.cust", !.gchecks = <<GCheck("fn", "C12", "C12.text_independent")>>]
  IN <<mk("1", <<"Other">>, "Other"), mk("2", <<"Root">>, "Root"), mk("3", <<"Root", "Other">>, "Root"), mk("3", <<"Root", "Other">>, "Other")>>

GenSelectShapes(long) ==
  CrossFileShapes \o EmptyUseShapes \o NameRelShapes \o NestedShapes \o CustSelShapes \o
  IF long THEN SelShapesOf(FALSE, {"none", "msg", "dep", "rev"}) \o SelShapesOf(TRUE, {"none", "msg", "dep", "rev"})
  ELSE SelShapesOf(FALSE, {"none", "dep", "rev"}) \o SelShapesOf(TRUE, {"msg", "rev"})

---------------------------------------------------------------------------
\* C18: a selected type is generated whole or not at all

Healthy == Msg("Root", <<Fld("Str", 1, "string"), MsgF("Sub", 2, "Leaf")>>, <<>>)
\* the unmappable field, by kind
BadField(kind) ==
  CASE kind = "time" -> StdTime("Bad", 9)
    [] kind = "dur" -> StdDur("Bad", 9)
    \* the well-known types as they stand, without the stdtime / stdduration options (gogo: *types.Timestamp / *types.Duration)
    [] kind = "ptime" -> Fld("Bad", 9, "timestamp")
    [] kind = "pdur" -> Fld("Bad", 9, "duration")
    [] kind = "mapkey" -> [MapOf(Fld("Bad", 9, "string")) EXCEPT !.mapkey = "int32"]
    \* a field type the generator has no mapping for at all: a (proto2-style) group - it carries a type name like a message does
    [] kind = "group" -> [Fld("Bad", 9, "bogus") EXCEPT !.ref = "Leaf"]
    [] OTHER -> Fld("Bad", 9, "string")
\* where it sits below the selected type Poison: [msgs, path of the bad field]
PoisonAt(pos, kind) ==
  LET bf == BadField(kind)
      holder == Msg("Mid", <<Fld("Num", 1, "int32"), bf>>, <<>>)
  IN CASE pos = "top" -> [msgs |-> <<Msg("Poison", <<Fld("Str", 1, "string"), bf>>, <<>>)>>, key |-> "Poison.Bad"]
       [] pos = "nested" -> [msgs |-> <<holder, Msg("Poison", <<Fld("Str", 1, "string"), MsgF("Sub", 2, "Mid")>>, <<>>)>>, key |-> "Poison.Sub.Bad"]
       [] pos = "list" -> [msgs |-> <<holder, Msg("Poison", <<Fld("Str", 1, "string"), Rep(MsgF("Subs", 2, "Mid"))>>, <<>>)>>, key |-> "Poison.Subs.Bad"]
       [] pos = "map" -> [msgs |-> <<holder, Msg("Poison", <<Fld("Str", 1, "string"), MapOf(MsgF("Dict", 2, "Mid"))>>, <<>>)>>, key |-> "Mid.Bad"]
       [] pos = "embed" -> [msgs |-> <<holder, Msg("Poison", <<Fld("Str", 1, "string"), NonNull(Embed(MsgF("Mid", 2, "Mid")))>>, <<>>)>>, key |-> "Mid.Bad"]
       [] pos = "oneof" -> [msgs |-> <<holder, Msg("Poison", <<InOneof(Fld("BranchA", 1, "string"), "Grp"), InOneof(MsgF("BranchB", 2, "Mid"), "Grp")>>, <<"Grp">>)>>, key |-> "Poison.BranchB.Bad"]
       \* five plain message fields between the selected type and the message that holds the field
       [] pos = "deep5" -> [msgs |-> <<holder, Msg("Extra", <<Fld("Flag", 1, "bool"), MsgF("Mid", 2, "Mid")>>, <<>>),
                                      Msg("Third", <<MsgF("Sub", 1, "Extra")>>, <<>>), Msg("Inner", <<MsgF("Sub", 1, "Third"), Fld("Str", 2, "string")>>, <<>>),
                                      Msg("Outer", <<Rep(MsgF("Subs", 1, "Inner"))>>, <<>>),
                                      Msg("Poison", <<Fld("Str", 1, "string"), MsgF("Sub", 2, "Outer")>>, <<>>)>>, key |-> "Mid.Bad"]
       [] OTHER -> [msgs |-> <<holder, Msg("Outer", <<Fld("Flag", 1, "bool"), MsgF("Mid", 2, "Mid")>>, <<>>),
                               Msg("Poison", <<Fld("Str", 1, "string"), MsgF("Sub", 2, "Outer")>>, <<>>)>>, key |-> "Poison.Sub.Mid.Bad"]

WholeCfg(kind, excl) == [BaseCfg EXCEPT !.types = <<"Poison", "Root">>, !.timetype = kind \notin {"time", "ptime"}, !.durationtype = kind \notin {"dur", "pdur"}, !.exclude = excl]

WholeShapesFor(pos, kind) ==
  LET pa == PoisonAt(pos, kind)
      d == Desc(<<Leaf>> \o pa.msgs \o <<Healthy>>)
      g == "c18." \o pos \o "." \o kind
      mk(tag, cfg, root) == [Shape(g \o "." \o tag \o "." \o root, d, cfg) EXCEPT !.root = root, !.run = g \o "." \o tag, !.group = g,
                                  !.gchecks = <<GCheck("fn", "C18", "C18.others_intact")>>]
  IN << mk("0base", [WholeCfg(kind, <<>>) EXCEPT !.types = <<"Root">>], "Root"),
        mk("1bad", WholeCfg(kind, <<>>), "Root"), mk("1bad", WholeCfg(kind, <<>>), "Poison"),
        mk("2excl", WholeCfg(kind, <<pa.key>>), "Root"), mk("2excl", WholeCfg(kind, <<pa.key>>), "Poison") >>

\* two selected types above the same unmappable nested message, and a healthy one
SharedPoison(kind) ==
  LET holder == Msg("Mid", <<Fld("Num", 1, "int32"), BadField(kind)>>, <<>>)
      d == Desc(<<Leaf, holder, Msg("Poison", <<Fld("Str", 1, "string"), MsgF("Sub", 2, "Mid")>>, <<>>),
                  Msg("Other", <<Fld("Flag", 1, "bool"), MsgF("Sub", 2, "Mid"), Rep(MsgF("Subs", 3, "Mid"))>>, <<>>), Healthy>>)
      g == "c18.shared." \o kind
      cfg(excl) == [WholeCfg(kind, excl) EXCEPT !.types = <<"Poison", "Other", "Root">>]
      mk(tag, c, root) == [Shape(g \o "." \o tag \o "." \o root, d, c) EXCEPT !.root = root, !.run = g \o "." \o tag, !.group = g,
                                  !.gchecks = <<GCheck("fn", "C18", "C18.others_intact")>>]
  IN << mk("0base", [cfg(<<>>) EXCEPT !.types = <<"Root">>], "Root"),
        mk("1bad", cfg(<<>>), "Root"), mk("1bad", cfg(<<>>), "Poison"), mk("1bad", cfg(<<>>), "Other"),
        mk("2excl", cfg(<<"Mid.Bad">>), "Root"), mk("2excl", cfg(<<"Mid.Bad">>), "Poison"), mk("2excl", cfg(<<"Mid.Bad">>), "Other") >>

\* a healthy selected type whose NAME begins with the name of the poisoned one, declared in front of it
PrefixPoison(kind) ==
  LET d == Desc(<<Leaf, Msg("FooBar", <<Fld("Str", 1, "string"), MsgF("Sub", 2, "Leaf")>>, <<>>), Msg("Foo", <<Fld("Num", 1, "int32"), BadField(kind)>>, <<>>)>>)
      g == "c18.prefix." \o kind
      cfg(types, excl) == [WholeCfg(kind, excl) EXCEPT !.types = types]
      mk(tag, c, root) == [Shape(g \o "." \o tag \o "." \o root, d, c) EXCEPT !.root = root, !.run = g \o "." \o tag, !.group = g,
                                  !.gchecks = <<GCheck("fn", "C18", "C18.others_intact")>>]
  IN << mk("0base", cfg(<<"FooBar">>, <<>>), "FooBar"),
        mk("1bad", cfg(<<"Foo", "FooBar">>, <<>>), "FooBar"), mk("1bad", cfg(<<"Foo", "FooBar">>, <<>>), "Foo"),
        mk("2excl", cfg(<<"Foo", "FooBar">>, <<"Foo.Bad">>), "FooBar"), mk("2excl", cfg(<<"Foo", "FooBar">>, <<"Foo.Bad">>), "Foo") >>

\* the unmappable field has a lower_snake name (its Go name differs from its proto name) and is excluded by a Message.field key
SnakePoison ==
  LET bf == [MapOf(Fld("foo_bar", 9, "string")) EXCEPT !.mapkey = "int32"]
      d == Desc(<<Leaf, Msg("Mid", <<Fld("Num", 1, "int32"), bf>>, <<>>), Msg("Poison", <<Fld("Str", 1, "string"), MsgF("Sub", 2, "Mid")>>, <<>>), Healthy>>)
      g == "c18.snake"
      mk(tag, cfg, root) == [Shape(g \o "." \o tag \o "." \o root, d, cfg) EXCEPT !.root = root, !.run = g \o "." \o tag, !.group = g,
                                  !.gchecks = <<GCheck("fn", "C18", "C18.others_intact")>>]
  IN << mk("0base", [WholeCfg("mapkey", <<>>) EXCEPT !.types = <<"Root">>], "Root"),
        mk("1bad", WholeCfg("mapkey", <<>>), "Root"), mk("1bad", WholeCfg("mapkey", <<>>), "Poison"),
        mk("2excl", WholeCfg("mapkey", <<"Mid.foo_bar">>), "Root"), mk("2excl", WholeCfg("mapkey", <<"Mid.foo_bar">>), "Poison") >>

Positions == <<"top", "nested", "list", "map", "embed", "oneof", "deep", "deep5">>
BadKinds == <<"time", "dur", "mapkey", "ptime", "pdur", "group">>
GenWholeShapes(long) ==
  IF long THEN FlattenSeq([i \in 1..(Len(Positions) * Len(BadKinds)) |->
                 WholeShapesFor(Positions[((i - 1) \div Len(BadKinds)) + 1], BadKinds[((i - 1) % Len(BadKinds)) + 1])])
               \o SharedPoison("time") \o SharedPoison("dur") \o SharedPoison("mapkey") \o PrefixPoison("mapkey") \o PrefixPoison("time") \o SnakePoison
  ELSE WholeShapesFor("top", "time") \o WholeShapesFor("nested", "mapkey") \o WholeShapesFor("list", "dur")
       \o WholeShapesFor("map", "time") \o WholeShapesFor("embed", "mapkey") \o WholeShapesFor("oneof", "dur") \o WholeShapesFor("deep", "time")
       \o SharedPoison("time") \o WholeShapesFor("nested", "ptime") \o WholeShapesFor("top", "pdur") \o WholeShapesFor("deep5", "time") \o PrefixPoison("mapkey")
       \o WholeShapesFor("nested", "group") \o WholeShapesFor("top", "group") \o SnakePoison

---------------------------------------------------------------------------
\* C16: command line and YAML are equivalent channels; C14: determinism

ChanOpts == <<"types", "exclude_fields", "computed_fields", "required_fields", "sensitive_fields",
              "default_package_name", "target_package_name", "duration_custom_type", "sort">>
Modes == <<"yaml", "cli", "both">>
ChanAll(m) == [i \in DOMAIN ChanOpts |-> KV(ChanOpts[i], m)]
ChanOne(i, m) == <<KV(ChanOpts[i], m)>>
ChanMix(k) == [i \in DOMAIN ChanOpts |-> KV(ChanOpts[i], Modes[((i * k + k) % 3) + 1])]

ChanRoot == Msg("Root", <<Fld("Str", 1, "string"), Fld("Extra", 2, "string"), MsgF("Sub", 3, "Leaf"),
                          Cast(Fld("Dur", 4, "int64"), "Duration"), Fld("Zed", 5, "int32"), Fld("Alpha", 6, "bool")>>, <<>>)
ChanOther == Msg("Other", <<Fld("Num", 1, "int32")>>, <<>>)
ChanCfg == [BaseCfg EXCEPT !.types = <<"Root", "Other">>, !.exclude = <<"Root.Extra">>, !.computed = <<"Root.Str", "Other.Num">>,
                           !.required = <<"Leaf.Str">>, !.sensitive = <<"Root.Sub.Str", "Root.Alpha", "Root.Str">>, !.separate = TRUE,
                           !.durationcustom = "Duration", !.sort = TRUE,
                           \* a file-only switch whose effect depends on a two-channel list (computed_fields)
                           !.usfu = TRUE]

ChanAlts(long) ==
  <<Alt("all.cli", "C16.channel_equiv", ChanAll("cli"), 0, <<>>), Alt("all.both", "C16.cli_wins", ChanAll("both"), 0, <<>>)>>
  \o [i \in DOMAIN ChanOpts |-> Alt("one.cli." \o ChanOpts[i], "C16.channel_equiv", ChanOne(i, "cli"), 0, <<>>)]
  \o [i \in DOMAIN ChanOpts |-> Alt("one.both." \o ChanOpts[i], "C16.cli_wins", ChanOne(i, "both"), 0, <<>>)]
  \o [k \in 1..(IF long THEN 40 ELSE 8) |-> Alt("mix." \o ToString(k), "C16.channel_equiv", ChanMix(k), k, <<>>)]
  \* an empty command-line value means "not given": the YAML value stays in force
  \o <<[Alt("yaml.plus.empty.cli", "C16.channel_equiv", <<>>, 0, <<>>) EXCEPT !.emptycli = TRUE],
       [Alt("mix.plus.empty.cli", "C16.channel_equiv", ChanMix(2), 0, <<>>) EXCEPT !.emptycli = TRUE]>>
  \* the same YAML document spelled otherwise: flow sequences; a path that occurs in two lists anchored once and aliased
  \o <<[Alt("yaml.flow", "C16.channel_equiv", <<>>, 0, <<>>) EXCEPT !.yamlstyle = "flow"],
       [Alt("yaml.alias", "C16.channel_equiv", <<>>, 0, <<>>) EXCEPT !.yamlstyle = "alias"],
       [Alt("mix.alias", "C16.channel_equiv", ChanOne(1, "cli"), 3, <<>>) EXCEPT !.yamlstyle = "alias"]>>
  \* the other spellings of a boolean the command line understands (sort=1, sort=t, ...), alone and against a contradicting file
  \o [i \in 1..5 |-> [Alt("sort.cli." \o <<"1", "t", "T", "TRUE", "True">>[i], "C16.channel_equiv", ChanOne(9, "cli"), 0, <<>>)
                        EXCEPT !.boolstyle = <<"1", "t", "T", "TRUE", "True">>[i]]]
  \o [i \in 1..2 |-> [Alt("sort.both." \o <<"1", "T">>[i], "C16.cli_wins", ChanOne(9, "both"), 0, <<>>) EXCEPT !.boolstyle = <<"1", "T">>[i]]]

\* a configuration that fits on the command line entirely: delivered without any `config` parameter, and next to a file
\* that can be read and parsed but says nothing (zero bytes; comments only)
CliRoot == Msg("Root", <<Fld("Str", 1, "string"), Fld("Extra", 2, "string"), MsgF("Sub", 3, "Leaf"), Fld("Zed", 4, "int32"), Fld("Alpha", 5, "bool"),
                         Rep(Fld("Items", 6, "string"))>>, <<>>)
CliCfg == [BaseCfg EXCEPT !.types = <<"Root", "Other">>, !.exclude = <<"Root.Extra">>, !.computed = <<"Root.Str", "Other.Num">>,
                          !.required = <<"Leaf.Str">>, !.sensitive = <<"Root.Alpha", "Root.Sub.Str">>, !.separate = TRUE, !.sort = TRUE,
                          !.timetype = FALSE, !.durationtype = FALSE]
CliAlts == <<Alt("all.cli", "C16.channel_equiv", ChanAll("cli"), 0, <<>>),
             [Alt("cli.no.config", "C16.channel_equiv", ChanAll("cli"), 0, <<>>) EXCEPT !.cfgfile = "none"],
             [Alt("cli.empty.file", "C16.channel_equiv", ChanAll("cli"), 2, <<>>) EXCEPT !.cfgfile = "empty"],
             [Alt("cli.comment.file", "C16.channel_equiv", ChanAll("cli"), 3, <<>>) EXCEPT !.cfgfile = "comments"]>>

GenConfigShapes(long) == <<
  [Shape("c16.cli", Desc(<<Leaf, CliRoot, ChanOther>>), [CliCfg EXCEPT !.alts = CliAlts]) EXCEPT !.root = "Root"],
  [Shape("c16.chan", Desc(<<Leaf, ChanRoot, ChanOther>>), [ChanCfg EXCEPT !.alts = ChanAlts(long)]) EXCEPT !.root = "Root"],
  [Shape("c16.chan.unsorted", Desc(<<Leaf, ChanRoot, ChanOther>>), [ChanCfg EXCEPT !.sort = FALSE, !.alts = ChanAlts(FALSE)]) EXCEPT !.root = "Other", !.run = "c16.chan.unsorted"],
  Shape("c16.notypes", Desc(<<Leaf, ChanRoot>>), [BaseCfg EXCEPT !.fault = "notypes"]),
  Shape("c16.notypes.cli", Desc(<<Leaf, ChanRoot>>), [BaseCfg EXCEPT !.fault = "notypes", !.channel = ChanAll("cli")]),
  Shape("c16.emptytypes", Desc(<<Leaf, ChanRoot>>), [BaseCfg EXCEPT !.fault = "emptytypes"]),
  Shape("c16.missingfile", Desc(<<Leaf, ChanRoot>>), [BaseCfg EXCEPT !.fault = "missingfile", !.channel = ChanAll("cli")]),
  Shape("c16.malformed", Desc(<<Leaf, ChanRoot>>), [BaseCfg EXCEPT !.fault = "malformed", !.channel = ChanAll("cli")]),
  \* a file that is YAML but cannot be parsed INTO the configuration (a scalar for a list, a word for a boolean, a mapping for a list)
  Shape("c16.mistyped.list", Desc(<<Leaf, ChanRoot>>), [BaseCfg EXCEPT !.fault = "mistypedlist"]),
  Shape("c16.mistyped.bool", Desc(<<Leaf, ChanRoot>>), [BaseCfg EXCEPT !.fault = "mistypedbool", !.channel = ChanOne(1, "cli")]),
  Shape("c16.mistyped.map", Desc(<<Leaf, ChanRoot>>), [BaseCfg EXCEPT !.fault = "mistypedmap"]) >>

\* C14: a configuration with several entries in every map / list option; the same request again and
\* again, and with permuted entry orders
\* (types also names a message by a package-qualified, dotted spelling, which selects nothing)
DetCfg == [BaseCfg EXCEPT !.types = <<"Root", "Leaf", "acme.tp.v1.Other">>, !.exclude = <<"Root.Extra", "Other.Num">>,
             \* (computed and sensitive list a message field AND a field below it: an entry never stands for another one)
             !.computed = <<"Root.Sub", "Root.Str", "Leaf.Str", "Root.Alpha", "Root.Sub.Num">>, !.required = <<"Root.Zed", "Root.Sub.Str">>,
             !.sensitive = <<"Root.Sub", "Root.Dur", "Root.Sub.Str", "Leaf.Num">>, !.durationcustom = "Duration", !.usfu = TRUE,
             \* Root.Sub.Num / Root.Sub.Str are addressed twice with different values: by path and by Leaf.<field> (the path wins)
             !.nameoverrides = <<KV("Root.Str", "ovr_a"), KV("Leaf.Num", "ovr_b"), KV("Root.Zed", "ovr_c"), KV("Root.Sub.Num", "ovr_d")>>,
             !.validators = <<[k |-> "Root.Str", v |-> <<"1", "2">>], [k |-> "Leaf.Str", v |-> <<"3">>], [k |-> "Root.Zed", v |-> <<"2">>],
                              [k |-> "Root.Sub.Str", v |-> <<"1">>]>>,
             !.planmodifiers = <<[k |-> "Root.Alpha", v |-> <<"1">>], [k |-> "Leaf.Num", v |-> <<"2", "3">>], [k |-> "Root.Sub", v |-> <<"3">>],
                                 [k |-> "Root.Sub.Num", v |-> <<"1">>]>>,
             !.injected = <<[k |-> "Root", v |-> <<Inj("id", "string", FALSE, TRUE, FALSE)>>], [k |-> "Root.Sub", v |-> <<Inj("rev", "int64", FALSE, TRUE, TRUE)>>],
                            [k |-> "Leaf", v |-> <<Inj("extra", "bool", FALSE, FALSE, TRUE)>>]>>,
             !.customtypes = <<KV("Root.Alpha", "CustB"), KV("Leaf.Num", "CustN")>>, \* (suffixes also holds entries for other spellings of the same type names, which no field uses)
             !.suffixes = <<KV("CustB", "SufB"), KV("[]CustB", "SufX"), KV("CustN", "SufN"), KV("*CustN", "SufY"), KV("[]*CustB", "SufZ")>>]
DetLeaf == Msg("Leaf", <<Fld("Str", 1, "string"), Fld("Num", 2, "int32")>>, <<>>)
\* a message with four nullable embedded messages (all primitive) and two oneof groups: every per-message list
\* the generator keeps (resets of holders / embedded parents, fields) has several entries
DetEmbeds == <<Msg("Inner", <<Fld("Flag", 1, "bool")>>, <<>>), Msg("Mid", <<Fld("Flt", 1, "float")>>, <<>>),
               Msg("Third", <<Fld("Raw", 1, "bytes")>>, <<>>), Msg("Extra", <<Fld("Kind", 1, "enum"), Fld("Zed", 2, "string")>>, <<>>),
               Msg("Outer", <<Embed(MsgF("Inner", 1, "Inner")), Embed(MsgF("Mid", 2, "Mid")), Embed(MsgF("Third", 3, "Third")), Embed(MsgF("Extra", 4, "Extra")),
                              InOneof(Fld("BranchA", 5, "string"), "Grp"), InOneof(Fld("BranchB", 6, "int32"), "Grp"),
                              InOneof(Fld("BranchC", 7, "string"), "Grp2"), InOneof(Fld("BranchD", 8, "bool"), "Grp2"), Fld("Str", 9, "string")>>, <<"Grp", "Grp2">>)>>
DetAlts(long) ==
  [k \in 1..(IF long THEN 40 ELSE 10) |-> Alt("repeat." \o ToString(k), "C14.same_sha", <<>>, 0, <<>>)]
  \o [k \in 1..(IF long THEN 20 ELSE 5) |-> Alt("perm." \o ToString(k), "C14.same_sha", <<>>, k, <<>>)]
  \o [k \in 1..(IF long THEN 10 ELSE 3) |-> Alt("cliperm." \o ToString(k), "C14.same_sha", ChanAll("cli"), 100 + k, <<>>)]
  \* an EMPTY entry in every `+` list of the command line (what a script that joins optional names produces), in front, after
  \* the first entry, at the end: it names nothing, wherever it stands
  \o [k \in 1..3 |-> [Alt("cligap." \o ToString(k), "C14.same_sha", ChanAll("cli"), IF k = 2 THEN 0 ELSE 200 + k, <<>>) EXCEPT !.cligap = k]]
\* separate package, short default_package_name resolved by import_path_overrides which also holds an unrelated entry
\* whose key is a prefix of the struct package's import path (exact-match lookup: the second entry is never used)
DetSepCfg == [BaseCfg EXCEPT !.types = <<"Root", "Leaf">>, !.separate = TRUE, !.importoverride = TRUE, !.extraoverride = TRUE]
GenDetShapes(long) == <<
  [Shape("c14.sepovr", Desc(<<DetLeaf, ChanRoot, ChanOther>>), [DetSepCfg EXCEPT !.durationcustom = "Duration", !.alts = DetAlts(long)]) EXCEPT !.root = "Root"],
  [Shape("c14.embeds", Desc(DetEmbeds), [BaseCfg EXCEPT !.types = <<"Outer">>, !.alts = DetAlts(long)]) EXCEPT !.root = "Outer"],
  [Shape("c14.embeds.sorted", Desc(DetEmbeds), [BaseCfg EXCEPT !.types = <<"Outer">>, !.sort = TRUE, !.alts = DetAlts(long)]) EXCEPT !.root = "Outer", !.run = "c14.embeds.sorted"],
  [Shape("c14.multi", Desc(<<DetLeaf, ChanRoot, ChanOther>>), [DetCfg EXCEPT !.alts = DetAlts(long)]) EXCEPT !.root = "Root"],
  \* custom types on repeated and map fields (by option and by configuration): a field that is several things at once
  [Shape("c14.custom", Desc(<<Msg("Root", <<Fld("Str", 1, "string"), [Rep(Fld("Custs", 2, "bool")) EXCEPT !.custom = "CustB"], MapOf(Fld("Tags", 3, "string")),
                                            Fld("Cust", 4, "string"), Rep(Fld("Items", 5, "int32"))>>, <<>>)>>),
         [BaseCfg EXCEPT !.customtypes = <<KV("Root.Tags", "CustM"), KV("Root.Cust", "CustC"), KV("Root.Items", "CustL")>>, !.suffixes = <<KV("CustB", "SufB")>>,
                         !.alts = DetAlts(long)]) EXCEPT !.root = "Root"],
  \* selected types declared in TWO proto files of the request (the file to generate and a file of the same package it imports)
  [Shape("c14.xfile", [pkg |-> "tp", msgs |-> <<XFront, XRoot>>, deps |-> <<XDep>>],
         [BaseCfg EXCEPT !.types = <<"Root", "Extra", "Other">>, !.alts = DetAlts(long)]) EXCEPT !.root = "Root"],
  [Shape("c14.xfile.sorted", [pkg |-> "tp", msgs |-> <<XFront, XRoot>>, deps |-> <<XDep>>],
         [BaseCfg EXCEPT !.types = <<"Root", "Extra", "Other">>, !.sort = TRUE, !.alts = DetAlts(long)]) EXCEPT !.root = "Extra", !.run = "c14.xfile.sorted"],
  [Shape("c14.sorted", Desc(<<DetLeaf, ChanRoot, ChanOther>>), [DetCfg EXCEPT !.sort = TRUE, !.alts = DetAlts(long)]) EXCEPT !.root = "Leaf", !.run = "c14.sorted"] >>

---------------------------------------------------------------------------
\* C15: declaration order

PermSeqs(s) == {[i \in DOMAIN s |-> s[p[i]]] : p \in Permutations(DOMAIN s)}

\* protoc numbers oneof declarations by first appearance
RECURSIVE FirstOneofs(_, _)
FirstOneofs(fs, seen) ==
  IF fs = <<>> THEN <<>>
  ELSE IF Head(fs).oneof = "" \/ Head(fs).oneof \in seen THEN FirstOneofs(Tail(fs), seen)
  ELSE <<Head(fs).oneof>> \o FirstOneofs(Tail(fs), seen \cup {Head(fs).oneof})
Reordered(m, fs) == [m EXCEPT !.fields = fs, !.oneofs = FirstOneofs(fs, {})]

SortRootFields == <<Fld("Zed", 1, "string"), InOneof(Fld("BranchC", 2, "int32"), "Zed"), InOneof(Fld("BranchD", 3, "string"), "Zed"),
                    Fld("Alpha", 4, "int32"), InOneof(Fld("BranchA", 5, "string"), "Alpha"), InOneof(MsgF("BranchB", 6, "Leaf"), "Alpha"),
                    NonNull(Embed(MsgF("Inner", 7, "Inner"))), Rep(Fld("Items", 8, "string"))>>
\* oneof groups are named like fields on purpose: holders Zed2 / Alpha2 would sort differently than declared
\* (leading comments on fields declared before and after the embedded message, which contributes two fields, and after an
\* excluded field, which contributes none: a comment belongs to the field's position in the DESCRIPTOR)
SortRoot == Msg("Root", <<Commented(Fld("Str", 1, "string"), Com1), InOneof(Fld("BranchC", 2, "int32"), "Grp2"), InOneof(Fld("BranchD", 3, "string"), "Grp2"),
                          Commented(Fld("Alpha", 4, "int32"), Com2), InOneof(Commented(Fld("BranchA", 5, "string"), Com5), "Grp"), InOneof(MsgF("BranchB", 6, "Leaf"), "Grp"),
                          NonNull(Embed(MsgF("Inner", 7, "Inner"))), Commented(Rep(Fld("Items", 8, "string")), Com3),
                          \* two names which differ in case only (a total order must separate them)
                          Commented(Fld("FooBar", 9, "string"), Com6), Fld("foobar", 10, "int32"),
                          Commented(Fld("Extra", 11, "string"), Com4)>>, <<"Grp2", "Grp">>)
SortInner == Msg("Inner", <<Fld("Zed", 1, "bool"), Fld("Flag", 2, "bool")>>, <<>>)
\* a message with two oneof groups declared against the alphabet, reached TWICE from a selected type
SortPair == Msg("Pair", <<InOneof(Fld("BranchC", 1, "string"), "Zed"), InOneof(Fld("BranchD", 2, "int32"), "Zed"),
                          InOneof(Fld("BranchA", 3, "string"), "Alpha")>>, <<"Zed", "Alpha">>)
\* (... and once more as the VALUE type of a map: the message of a map field hangs off the entry's value field)
SortOther == Msg("Other", <<Fld("Num", 1, "int32"), Fld("Flt", 2, "float"), MsgF("Sub", 3, "Pair"), MsgF("Sub2", 4, "Pair"),
                            MapOf(MsgF("Dict", 5, "Pair"))>>, <<>>)
SortMsgs == <<Leaf, SortInner, SortPair, SortRoot, SortOther>>
SortCfg(sort) == [BaseCfg EXCEPT !.types = <<"Root", "Other", "Leaf">>, !.sort = sort, !.exclude = <<"Root.Extra">>]

\* rotations + a reversal + swaps of the root's fields (thorough: more), all orders of the messages
FieldOrders(long) ==
  LET fs == SortRoot.fields
      n == Len(fs)
      rot(k) == [i \in 1..n |-> fs[((i + k - 1) % n) + 1]]
      rev == [i \in 1..n |-> fs[n + 1 - i]]
      swap(a, b) == [i \in 1..n |-> IF i = a THEN fs[b] ELSE IF i = b THEN fs[a] ELSE fs[i]]
  IN <<rev, rot(1), rot(3), swap(2, 5), swap(1, 8), swap(1, 11)>> \o (IF long THEN <<rot(2), rot(4), rot(5), rot(6), rot(7), swap(2, 3), swap(5, 6), swap(3, 6), swap(4, 7)>> ELSE <<>>)

\* message orders: 5 messages; all 119 non-identical orders in the thorough tier, a seeded handful otherwise
MsgOrders == SetToSeq(PermSeqs(<<1, 2, 3, 4, 5>>) \ {<<1, 2, 3, 4, 5>>})
WithRoot(fs) == <<Leaf, SortInner, SortPair, Reordered(SortRoot, fs), SortOther>>
\* the oneof groups of Pair declared the other way round (protoc numbers them by first appearance)
WithPairSwapped == <<Leaf, SortInner, Reordered(SortPair, <<SortPair.fields[3], SortPair.fields[1], SortPair.fields[2]>>), SortRoot, SortOther>>
Permuted(long) ==
  [i \in DOMAIN FieldOrders(long) |-> WithRoot(FieldOrders(long)[i])]
  \o <<WithPairSwapped>>
  \* message orders: the reversal and a rotation always (a type declared after / before the messages that use
  \* it), all of them in the thorough tier
  \o [i \in 1..2 |-> [j \in 1..5 |-> SortMsgs[<<<<5, 4, 3, 2, 1>>, <<3, 4, 5, 1, 2>>>>[i][j]]]]
  \o [i \in 1..(IF long THEN Len(MsgOrders) ELSE 3) |-> [j \in 1..5 |-> SortMsgs[MsgOrders[i][j]]]]
  \o <<[j \in 1..5 |-> WithRoot(FieldOrders(long)[1])[MsgOrders[7][j]]]>>

SortAlts(long) == [i \in DOMAIN Permuted(long) |-> Alt("perm." \o ToString(i), "C15.sorted_bytes", <<>>, 0, Permuted(long)[i])]

\* sort off: schema and behaviour of every permuted variant equal the base's (paired line by line)
\* (the thorough tier adds field orders to the sorted renderings above only: replaying every behaviour through fifteen more
\* variants put 70 000 trace lines into one group, which one validator cannot cut and did not finish in half an hour)
UnsortedShapes(long) ==
  LET ps == Permuted(FALSE)
      mk(id, msgs, role, root) ==
        [Shape("c15.u." \o id \o "." \o root, Desc(msgs), SortCfg(FALSE)) EXCEPT !.root = root, !.run = "c15.u." \o id, !.group = "c15.u",
           !.gchecks = <<GCheck("schema", "C15", "C15.unsorted_schema")>>,
           !.pair = [key |-> "c15.u." \o root, role |-> role, clause |-> "C15.unsorted_behaviour", prop |-> "C15", exclkey |-> ""]]
  IN <<mk("0base", SortMsgs, "base", "Root"), mk("0base", SortMsgs, "base", "Other")>>
     \o FlattenSeq([i \in DOMAIN ps |-> <<mk("1v" \o ToString(i), ps[i], "variant", "Root"), mk("1v" \o ToString(i), ps[i], "variant", "Other")>>])

\* the fields of an EMBEDDED message permuted (nullable embed with a scalar and a list child), sort off
EmbInner(fs) == Msg("Inner", fs, <<>>)
EmbFields == <<Fld("Fa", 1, "string"), Rep(Fld("Fb", 2, "string")), Fld("Fc", 3, "int32")>>
EmbRoot == Msg("Root", <<Fld("Str", 1, "string"), Embed(MsgF("Inner", 2, "Inner"))>>, <<>>)
EmbedOrderShapes ==
  LET mk(id, fs, role) ==
        [Shape("c15.e." \o id, Desc(<<EmbInner(fs), EmbRoot>>), BaseCfg) EXCEPT !.group = "c15.e",
           !.gchecks = <<GCheck("schema", "C15", "C15.unsorted_schema")>>,
           !.pair = [key |-> "c15.e", role |-> role, clause |-> "C15.unsorted_behaviour", prop |-> "C15", exclkey |-> ""]]
  IN <<mk("0base", EmbFields, "base"), mk("1rev", Reverse(EmbFields), "variant"),
       mk("2rot", <<EmbFields[2], EmbFields[3], EmbFields[1]>>, "variant"),
       mk("3last", <<EmbFields[3], EmbFields[1], EmbFields[2]>>, "variant")>>

\* a message with a message field of its own reached through TWO fields of the root, the two references declared in either
\* order, with options keyed by the path through ONE of them: what is built below a message depends on the path it is reached by
PathMsgs(swap) ==
  LET mid == Msg("Mid", <<MsgF("Leaf", 1, "Leaf"), Fld("Num", 2, "int32")>>, <<>>)
      a == MsgF("Sub", 1, "Mid")
      b == MsgF("Sub2", 2, "Mid")
  IN <<Leaf, mid, Msg("Root", IF swap THEN <<b, a, Fld("Zed", 3, "string")>> ELSE <<a, b, Fld("Zed", 3, "string")>>, <<>>)>>
PathCfg(sort) == [BaseCfg EXCEPT !.sort = sort, !.nameoverrides = <<KV("Root.Sub2.Leaf.Str", "ovr_p")>>, !.sensitive = <<"Root.Sub2.Leaf.Str">>,
                                 !.computed = <<"Root.Sub.Num">>]
PathOrderShapes ==
  LET mk(id, swap, role) ==
        [Shape("c15.p." \o id, Desc(PathMsgs(swap)), PathCfg(FALSE)) EXCEPT !.group = "c15.p",
           !.gchecks = <<GCheck("schema", "C15", "C15.unsorted_schema")>>,
           !.pair = [key |-> "c15.p", role |-> role, clause |-> "C15.unsorted_behaviour", prop |-> "C15", exclkey |-> ""]]
  IN <<mk("0base", FALSE, "base"), mk("1swap", TRUE, "variant"),
       [Shape("c15.p.sorted", Desc(PathMsgs(FALSE)), [PathCfg(TRUE) EXCEPT !.alts = <<Alt("perm.swap", "C15.sorted_bytes", <<>>, 0, PathMsgs(TRUE))>>]) EXCEPT !.run = "c15.p.sorted"]>>

GenSortShapes(long) ==
  PathOrderShapes \o
  EmbedOrderShapes \o
  <<[Shape("c15.sorted", Desc(SortMsgs), [SortCfg(TRUE) EXCEPT !.alts = SortAlts(long)]) EXCEPT !.root = "Root"]>> \o UnsortedShapes(long)

---------------------------------------------------------------------------
\* C13: separate target package.  Every shape whose generated code must qualify a type of the struct package
\* (named casts, enums, oneof wrappers, embedded and nested messages, map values) once in the same package
\* (base) and twice in a package of its own (variants: plain / with import_path_overrides)

SepSel == <<ScalarShapes[8], ScalarShapes[6], ScalarShapes[10], ScalarShapes[13], ListShapes[4], MapShapes[3],
            ObjShapes[1], ObjShapes[2], ObjShapes[4], ObjShapes[6], ObjShapes[7], OneofShapes[1], OneofShapes[2],
            EmbedShapes[1], EmbedShapes[2], EmbedShapes[4], EmptyShapes[1], DeepShapes[1], PairShapes[2],
            \* built-in element types below a slice / map modifier are never qualified
            Shape("s.allbytes", Desc(<<Msg("Root", <<Fld("Raw", 1, "bytes"), Rep(Fld("Items", 2, "bytes")), MapOf(Fld("Tags", 3, "bytes")),
                                                     Rep(Fld("Fa", 4, "bool")), MapOf(Fld("Fb", 5, "uint32"))>>, <<>>)>>), BaseCfg),
            \* the word "package" inside a description: only the package clause of the file may be rewritten
            CastBuiltin, Dotted(DeepShapes[1]), Dotted(ObjShapes[1]),
            \* duration_custom_type names a cast type by its bare name, wherever the generated code lives
            CastNameShapes[1],
            Shape("s.pkgcomment", Desc(<<Msg("Root", <<Commented(Fld("Str", 1, "string"), ComPkg), Commented(Fld("Num", 2, "int32"), Com1)>>, <<>>)>>), BaseCfg),
            \* field-addressed options keyed by Message.field and by path, on a nested message
            Shape("s.keyed", Desc(<<Leaf, Msg("Root", <<MsgF("Sub", 1, "Leaf"), Rep(MsgF("Subs", 2, "Leaf")), Fld("Str", 3, "string")>>, <<>>)>>),
                  [BaseCfg EXCEPT !.nameoverrides = <<KV("Leaf.Str", "ovr_tn"), KV("Root.Sub.Num", "ovr_path")>>, !.sensitive = <<"Leaf.Num">>, !.required = <<"Root.Str">>])>>

SepTriple(sp) ==
  LET pr(role) == [key |-> "c13." \o sp.id, role |-> role, clause |-> "C13.same_behaviour", prop |-> "C13", exclkey |-> ""]
      mk(tag, cfg, role) == [sp EXCEPT !.id = "c13." \o sp.id \o "." \o tag, !.run = "c13." \o sp.id \o "." \o tag, !.cfg = cfg,
                                       !.group = "c13." \o sp.id, !.pair = pr(role),
                                       !.gchecks = <<GCheck("schema", "C13", "C13.same_behaviour")>>]
  IN <<mk("0same", sp.cfg, "base"),
       \* (import_path_overrides also holds an unrelated entry whose key is a prefix of the struct package's path)
       mk("1sep", [sp.cfg EXCEPT !.separate = TRUE, !.extraoverride = TRUE], "variant"),
       mk("2sepovr", [sp.cfg EXCEPT !.separate = TRUE, !.importoverride = TRUE, !.extraoverride = TRUE], "variant"),
       \* a versioned import path: the last element contains a dot (.../tp.v1)
       mk("3sepdot", [sp.cfg EXCEPT !.separate = TRUE, !.dottedimport = TRUE], "variant"),
       \* the target package is NAMED like the struct package (another directory, the same package name)
       mk("4sepname", [sp.cfg EXCEPT !.separate = TRUE, !.samename = TRUE], "variant"),
       \* the import path of the struct package has capital letters, every letter of the message names among them
       mk("5sepcaps", [sp.cfg EXCEPT !.separate = TRUE, !.capsimport = TRUE], "variant"),
       \* default_package_name is a full import path where the structs USED to live; import_path_overrides, keyed by that
       \* full path, redirects it to where they are
       mk("6seplegacy", [sp.cfg EXCEPT !.separate = TRUE, !.legacyoverride = TRUE], "variant")>>

GenSepShapes == FlattenSeq([i \in DOMAIN SepSel |-> SepTriple(SepSel[i])])

---------------------------------------------------------------------------
\* C11: field-addressed options; a message type at several paths, also embedded below the root

AddrLeaf == Msg("Leaf", <<Fld("Str", 1, "string"), Fld("Num", 2, "int32")>>, <<>>)
AddrMid == Msg("Mid", <<MsgF("Sub", 1, "Leaf"), Fld("Flag", 2, "bool")>>, <<>>)
AddrOuter == Msg("Outer", <<NonNull(Embed(MsgF("Leaf", 1, "Leaf"))), Fld("Kind", 2, "enum")>>, <<>>)
AddrRoot == Msg("Root", <<Fld("Zed", 1, "string"), MsgF("Sub", 2, "Leaf"), MsgF("Sub2", 3, "Leaf"), Rep(MsgF("Subs", 4, "Leaf")),
                          MapOf(MsgF("Dict", 5, "Leaf")), MsgF("Mid", 6, "Mid"), MsgF("Extra", 7, "Outer"),
                          \* (the field Mid is named like its type, and the type occurs once more: the full path Root.Mid.Flag ends
                          \* in the spelling of the Message.field key Mid.Flag without being one)
                          MsgF("Third", 8, "Mid")>>, <<>>)
AddrDesc == Desc(<<AddrLeaf, AddrMid, AddrOuter, AddrRoot>>)

AddrKeys == <<"Root.Sub.Str", "Leaf.Str", "Root.Subs.Num", "Root.Dict.Str", "Root.Mid.Sub.Num", "Mid.Sub", "Root.Zed",
              "Root.Extra.Str", "Root.Extra.Kind", "Outer.Kind", "Root.Sub2", "Root.Mid.Flag">>
AddrOptions == <<"exclude", "required", "computed", "sensitive", "nameoverride", "validators", "planmodifiers">>

AddrCfg(opt, key) ==
  CASE opt = "exclude" -> [BaseCfg EXCEPT !.exclude = <<key>>]
    [] opt = "required" -> [BaseCfg EXCEPT !.required = <<key>>]
    [] opt = "computed" -> [BaseCfg EXCEPT !.computed = <<key>>, !.usfu = TRUE]
    [] opt = "sensitive" -> [BaseCfg EXCEPT !.sensitive = <<key>>]
    [] opt = "nameoverride" -> [BaseCfg EXCEPT !.nameoverrides = <<KV(key, "ovr_x")>>]
    [] opt = "validators" -> [BaseCfg EXCEPT !.validators = <<[k |-> key, v |-> <<"1", "2">>]>>]
    [] OTHER -> [BaseCfg EXCEPT !.planmodifiers = <<[k |-> key, v |-> <<"3">>]>>]

\* two selected root types reaching the same message through the same field name: an option keyed by the full
\* path below one root must not reach (or be lost for) the other
TwoRoots == Desc(<<AddrLeaf, Msg("Root", <<MsgF("Sub", 1, "Leaf"), Fld("Zed", 2, "string")>>, <<>>),
                   Msg("Other", <<MsgF("Sub", 1, "Leaf"), Fld("Flag", 2, "bool")>>, <<>>)>>)
TwoRootKeys == <<"Root.Sub.Str", "Other.Sub.Str", "Other.Sub.Num", "Leaf.Num">>
GenAddrTwoRoots ==
  FlattenSeq([o \in DOMAIN AddrOptions |-> FlattenSeq([k \in DOMAIN TwoRootKeys |->
    LET run == "c11.two." \o AddrOptions[o] \o "." \o ToString(k)
        cfg == [AddrCfg(AddrOptions[o], TwoRootKeys[k]) EXCEPT !.types = <<"Root", "Other">>]
    IN <<[Shape(run \o ".Root", TwoRoots, cfg) EXCEPT !.run = run], [Shape(run \o ".Other", TwoRoots, cfg) EXCEPT !.run = run, !.root = "Other"]>>])])

\* the same addressing when the generated code lives in a separate package (keys never carry a package)
GenAddrSeparate ==
  FlattenSeq([o \in DOMAIN AddrOptions |-> [k \in 1..4 |->
     Shape("c11.sep." \o AddrOptions[o] \o "." \o ToString(k), AddrDesc,
           [AddrCfg(AddrOptions[o], <<"Leaf.Str", "Root.Sub.Num", "Mid.Sub", "Outer.Kind">>[k]) EXCEPT !.separate = TRUE])]])

\* TWO options for the same field, one keyed by the full path and the other by Message.field (both ways round), with the
\* default plan modifier of computed fields switched on: each option still hits what it addresses and nothing else
GenAddrMixed == <<
  Shape("c11.mix.1", AddrDesc, [BaseCfg EXCEPT !.computed = <<"Root.Sub.Str">>, !.planmodifiers = <<[k |-> "Leaf.Str", v |-> <<"2">>]>>, !.usfu = TRUE]),
  Shape("c11.mix.2", AddrDesc, [BaseCfg EXCEPT !.computed = <<"Leaf.Str">>, !.planmodifiers = <<[k |-> "Root.Sub.Str", v |-> <<"2">>]>>, !.usfu = TRUE]),
  Shape("c11.mix.3", AddrDesc, [BaseCfg EXCEPT !.computed = <<"Root.Sub2.Num", "Leaf.Str">>, !.validators = <<[k |-> "Leaf.Num", v |-> <<"1">>]>>,
                                               !.required = <<"Root.Subs.Str">>, !.sensitive = <<"Leaf.Num">>, !.usfu = TRUE]),
  Shape("c11.mix.4", AddrDesc, [BaseCfg EXCEPT !.nameoverrides = <<KV("Leaf.Str", "ovr_t"), KV("Root.Sub.Str", "ovr_p")>>, !.exclude = <<"Root.Sub2.Str">>,
                                               !.computed = <<"Root.Sub.Str">>, !.usfu = TRUE]),
  \* options addressed to a CUSTOM-type field (both key forms; the default plan modifier of a computed one): the attribute
  \* handed to GenSchema<Suffix> carries them like any other attribute does
  Shape("c11.mix.5", Desc(<<Msg("Leaf", <<Fld("Str", 1, "string"), Fld("Cust", 2, "string")>>, <<>>),
                            Msg("Root", <<MsgF("Sub", 1, "Leaf"), MsgF("Sub2", 2, "Leaf"), Fld("Num", 3, "int32")>>, <<>>)>>),
        [BaseCfg EXCEPT !.customtypes = <<KV("Root.Sub.Cust", "CustN"), KV("Root.Sub2.Cust", "CustN")>>,
                        !.validators = <<[k |-> "Leaf.Cust", v |-> <<"1">>]>>, !.planmodifiers = <<[k |-> "Root.Sub.Cust", v |-> <<"2">>]>>,
                        !.computed = <<"Root.Sub2.Cust">>, !.sensitive = <<"Leaf.Cust">>, !.usfu = TRUE]),
  \* every time / duration field excluded (by both key forms) and NO time_type / duration_type configured: an excluded
  \* field is not looked at
  Shape("c11.mix.6", Desc(<<Msg("Leaf", <<Fld("Str", 1, "string"), StdDur("Dur", 2)>>, <<>>),
                            Msg("Root", <<MsgF("Sub", 1, "Leaf"), MsgF("Sub2", 2, "Leaf"), StdTime("When", 3), Fld("Num", 4, "int32"),
                                          Rep(StdTime("Whens", 5))>>, <<>>)>>),
        [BaseCfg EXCEPT !.exclude = <<"Leaf.Dur", "Root.When", "Root.Whens">>, !.timetype = FALSE, !.durationtype = FALSE,
                        !.computed = <<"Root.Sub.Str">>]),
  \* the flag lists given as plugin PARAMETERS (both key forms), next to lists that stay in the file
  Shape("c11.mix.7", AddrDesc, [BaseCfg EXCEPT !.required = <<"Root.Sub.Str", "Leaf.Num">>, !.computed = <<"Leaf.Str", "Root.Zed">>,
                                               !.sensitive = <<"Root.Subs.Num">>, !.exclude = <<"Root.Sub2.Num">>,
                                               !.channel = <<KV("required_fields", "cli"), KV("sensitive_fields", "cli"), KV("exclude_fields", "cli")>>]) >>

\* the same mixed-key configurations judged for C10 (flags, validators, plan modifiers and the default plan modifier per attribute)
MixedKeyFlagShapes == [i \in DOMAIN GenAddrMixed |-> [GenAddrMixed[i] EXCEPT !.id = "c10.mix." \o ToString(i), !.run = "c10.mix." \o ToString(i)]]
GenFlagShapes(long) == MixedKeyFlagShapes \o GenFlagShapes0(long)

GenAddrShapes ==
  <<Shape("c11.base", AddrDesc, BaseCfg)>> \o GenAddrSeparate \o GenAddrMixed
  \o FlattenSeq([o \in DOMAIN AddrOptions |-> [k \in DOMAIN AddrKeys |->
        Shape("c11." \o AddrOptions[o] \o "." \o ToString(k), AddrDesc, AddrCfg(AddrOptions[o], AddrKeys[k]))]])
  \o GenAddrTwoRoots

\* exclusion is surgical: the excluded variant behaves like the base on everything else (paired)
ExclKeys == <<"Root.Sub.Str", "Leaf.Str", "Root.Subs.Num", "Root.Dict.Str", "Root.Mid.Sub.Num", "Mid.Sub", "Root.Zed", "Outer.Kind", "Root.Sub2">>
GenExclShapes ==
  LET pr(role, key) == [key |-> "c11x", role |-> role, clause |-> "C11.excl.rest_same", prop |-> "C11", exclkey |-> key]
      mk(tag, cfg, role, key) == [Shape("c11x." \o tag, AddrDesc, cfg) EXCEPT !.group = "c11x", !.pair = pr(role, key)]
  IN <<mk("0base", BaseCfg, "base", "")>> \o [k \in DOMAIN ExclKeys |-> mk("1x" \o ToString(k), AddrCfg("exclude", ExclKeys[k]), "variant", ExclKeys[k])]

---------------------------------------------------------------------------
\* C19: one message per proto scalar type with the scalar in every position: singular, list element, map
\* value, oneof branch; plus cast types and the temporal types
FourOf(t) == Msg("Root", <<Fld("Fa", 1, t), Rep(Fld("Fb", 2, t)), MapOf(Fld("Fc", 3, t)), InOneof(Fld("Fd", 4, t), "Grp")>>, <<"Grp">>)
BoundaryShapes ==
  [i \in DOMAIN ScalarTys |-> With("c19." \o ScalarTys[i], <<FourOf(ScalarTys[i])>>, BaseCfg)]
  \* the scalar positions below the holder of an embedded message (nullable: allocated on demand; by value), all set at once
  \o [i \in DOMAIN ScalarTys |-> With("c19.embed." \o ScalarTys[i],
          <<Msg("Inner", <<Fld("Fa", 1, ScalarTys[i]), Fld("Fb", 2, ScalarTys[i]), Fld("Fc", 3, ScalarTys[i])>>, <<>>),
            Msg("Outer", <<Fld("Fd", 1, ScalarTys[i]), Fld("Fe", 2, ScalarTys[i])>>, <<>>),
            Msg("Root", <<Embed(MsgF("Inner", 1, "Inner")), NonNull(Embed(MsgF("Outer", 2, "Outer"))), Fld("Ff", 3, ScalarTys[i])>>, <<>>)>>, BaseCfg)]
  \o << With("c19.enum", <<FourOf("enum")>>, BaseCfg),
        With("c19.cast.string", <<Msg("Root", <<Cast(Fld("Fa", 1, "string"), "CastStr"), Rep(Cast(Fld("Fb", 2, "string"), "CastStr"))>>, <<>>)>>, BaseCfg),
        With("c19.cast.uint64", <<Msg("Root", <<Cast(Fld("Fa", 1, "uint64"), "CastU"), Rep(Cast(Fld("Fb", 2, "uint64"), "CastU"))>>, <<>>)>>, BaseCfg),
        With("c19.cast.float", <<Msg("Root", <<Cast(Fld("Fa", 1, "float"), "CastF")>>, <<>>)>>, BaseCfg),
        With("c19.cast.fracdur", <<Msg("Root", <<Cast(Fld("Fa", 1, "double"), "FracDuration"), Rep(Cast(Fld("Fb", 2, "double"), "FracDuration"))>>, <<>>)>>,
             [BaseCfg EXCEPT !.durationcustom = "Duration"]),
        With("c19.time", <<Msg("Root", <<NonNull(StdTime("Fa", 1)), StdTime("Fb", 2), Rep(StdTime("Fc", 3))>>, <<>>)>>, BaseCfg),
        With("c19.duration", <<Msg("Root", <<NonNull(StdDur("Fa", 1)), StdDur("Fb", 2), Cast(Fld("Fc", 3, "int64"), "time.Duration"),
                                           Rep(Cast(Fld("Fd", 4, "int64"), "time.Duration")), Cast(Fld("Fe", 5, "int64"), "Duration")>>, <<>>)>>,
             [BaseCfg EXCEPT !.durationcustom = "Duration"]) >>

---------------------------------------------------------------------------
\* C17: custom types, by proto option and by configuration, singular and repeated, with / without suffix
Custom(f, t) == [f EXCEPT !.custom = t]
CustCfg(ct, sf) == [BaseCfg EXCEPT !.customtypes = ct, !.suffixes = sf]
CustomShapes == <<
  With("u.opt.one", <<Msg("Root", <<Fld("Str", 1, "string"), NonNull(Custom(Commented(Fld("Cust", 2, "string"), Com2), "CustT"))>>, <<>>)>>, BaseCfg),
  With("u.opt.rep", <<Msg("Root", <<Rep(Custom(Fld("Custs", 1, "bool"), "CustB")), Fld("Num", 2, "int32")>>, <<>>)>>, CustCfg(<<>>, <<KV("CustB", "SufB")>>)),
  With("u.cfg", <<Msg("Root", <<Fld("Str", 1, "string"), Commented(Fld("Cust", 2, "string"), Com1)>>, <<>>)>>, CustCfg(<<KV("Root.Cust", "CustC")>>, <<>>)),
  With("u.cfg.suffix", <<Msg("Root", <<Fld("Str", 1, "string"), Fld("Cust", 2, "int64"), Rep(Fld("Custs", 3, "string"))>>, <<>>)>>,
       [CustCfg(<<KV("Root.Cust", "CustC"), KV("Root.Custs", "CustL")>>, <<KV("CustC", "SufC")>>) EXCEPT
          !.computed = <<"Root.Cust">>, !.sensitive = <<"Root.Custs">>, !.required = <<"Root.Custs">>, !.usfu = TRUE,
          !.validators = <<[k |-> "Root.Cust", v |-> <<"1">>]>>]),
  With("u.nested", <<Msg("Leaf", <<Fld("Str", 1, "string"), Commented(Fld("Cust", 2, "string"), Com1)>>, <<>>),
                     Msg("Root", <<MsgF("Sub", 1, "Leaf"), NonNull(MsgF("Sub2", 2, "Leaf")), Fld("Num", 3, "int32")>>, <<>>)>>,
       CustCfg(<<KV("Root.Sub.Cust", "CustN"), KV("Root.Sub2.Cust", "CustM")>>, <<KV("CustN", "SufN")>>)),
  With("u.two", <<Msg("Root", <<NonNull(Custom(Fld("Cust", 1, "string"), "CustT")), Fld("Extra", 2, "bytes")>>, <<>>)>>,
       CustCfg(<<KV("Root.Extra", "CustX")>>, <<KV("CustT", "SufT")>>)),
  \* custom types on MAP fields (of scalars and of messages): delegated like any other custom field
  \* a custom-type field that ALSO matches a schema_types entry: still delegated to the hooks
  With("u.cfg.ovr", <<Msg("Root", <<Fld("Str", 1, "string"), Fld("Cust", 2, "string"), NonNull(Custom(Fld("Zed", 3, "string"), "CustT"))>>, <<>>)>>,
       [CustCfg(<<KV("Root.Cust", "CustC")>>, <<KV("CustT", "SufT")>>) EXCEPT !.schematypes = <<KV("Root.Cust", "string"), KV("Root.Zed", "string")>>,
                                                                          !.computed = <<"Root.Cust">>, !.required = <<"Root.Zed">>]),
  With("u.cfg.map", <<Msg("Root", <<MapOf(Fld("Tags", 1, "string")), MapOf(Fld("Fb", 2, "bool")), Fld("Str", 3, "string"), MapOf(Fld("Fa", 4, "int32"))>>, <<>>)>>,
       CustCfg(<<KV("Root.Tags", "CustM"), KV("Root.Fb", "CustD")>>, <<KV("CustD", "SufD")>>)),
  \* custom types of ANOTHER package, named by the proto option with their full import path (with and without a suffixes entry)
  With("u.opt.path", <<Msg("Root", <<Fld("Str", 1, "string"), NonNull(Custom(Fld("Cust", 2, "string"), "verif/harness/ext/ct.Label")),
                                     Rep(Custom(Fld("Custs", 3, "bool"), "verif/harness/ext/ct.Tag"))>>, <<>>)>>,
       CustCfg(<<>>, <<KV("verif/harness/ext/ct.Tag", "SufT")>>)),
  \* two custom types which share their last name component: the suffixes entry of the bare one is not the other's
  With("u.cfg.samename", <<Msg("Root", <<Fld("Cust", 1, "string"), Fld("Extra", 2, "string"), Fld("Str", 3, "string")>>, <<>>)>>,
       CustCfg(<<KV("Root.Cust", "Traits"), KV("Root.Extra", "ext/wrappers.Traits"), KV("Root.Str", "wrappers.Traits")>>, <<KV("Traits", "LocalTraits")>>)) >>

\* the mapping family also generates and COMPILES custom-type fields (C01: whatever declares the type - the proto option or the
\* configuration - the hooks called are the ones the suffix rule names)
GenMapShapesAll == GenMapShapes \o <<CustomShapes[1], CustomShapes[3], CustomShapes[5], CustomShapes[8]>>
=============================================================================
