------------------------------ MODULE GenShapes ------------------------------
(***************************************************************************)
(* Shape families of the generator-level properties (DESIGN.md §4.4):      *)
(* descriptors x configurations whose plugin RUNS are observed (exit       *)
(* status, response, file, functions, compile result, schema).             *)
(***************************************************************************)
EXTENDS Shapes

ScalarTys == <<"double", "float", "int64", "uint64", "int32", "fixed64", "fixed32", "bool", "string", "bytes",
               "uint32", "sfixed32", "sfixed64", "sint32", "sint64">>
Names15 == <<"Fa", "Fb", "Fc", "Fd", "Fe", "Ff", "Fg", "Fh", "Fi", "Fj", "Fk", "Fl", "Fm", "Fn", "Fo">>

AllOne == Msg("Root", [i \in 1..15 |-> Fld(Names15[i], i, ScalarTys[i])], <<>>)
AllRep == Msg("Root", [i \in 1..15 |-> Rep(Fld(Names15[i], i, ScalarTys[i]))], <<>>)
\* map<string, bytes> is kept in a shape of its own
NoBytes == SelectSeq([i \in 1..15 |-> i], LAMBDA i : ScalarTys[i] # "bytes")
AllMap == Msg("Root", [j \in 1..14 |-> MapOf(Fld(Names15[NoBytes[j]], NoBytes[j], ScalarTys[NoBytes[j]]))], <<>>)
AllOneof == Msg("Root", [i \in 1..15 |-> InOneof(Fld(Names15[i], i, ScalarTys[i]), "Grp")], <<"Grp">>)

With(id, msgs, cfg) == Shape(id, Desc(msgs), cfg)
Ovr(kvs) == [BaseCfg EXCEPT !.nameoverrides = kvs]
KV(k, v) == [k |-> k, v |-> v]

TypeTableShapes == <<
  With("g.all.one", <<AllOne>>, BaseCfg),
  With("g.all.rep", <<AllRep>>, BaseCfg),
  With("g.all.map", <<AllMap>>, BaseCfg),
  With("g.all.oneof", <<AllOneof>>, BaseCfg),
  With("g.all.one.sorted", <<AllOne>>, [BaseCfg EXCEPT !.sort = TRUE]),
  With("g.map.bytes", <<Msg("Root", <<MapOf(Fld("Tags", 1, "bytes"))>>, <<>>)>>, BaseCfg) >>

NamingShapes == <<
  Single("n.camel", Fld("FooBar", 1, "string")),
  Single("n.snake", Fld("foo_bar", 1, "string")),
  Single("n.json.empty", Json(Fld("Str", 1, "string"), "")),
  Single("n.json.dash", Json(Fld("Str", 1, "string"), "-")),
  Single("n.json.dashomit", Json(Fld("Str", 1, "string"), "-,omitempty")),
  Single("n.json.omit", Json(Fld("Str", 1, "string"), ",omitempty")),
  Single("n.json.name", Json(Fld("Str", 1, "string"), "jname")),
  Single("n.json.nameomit", Json(Fld("FooBar", 1, "string"), "jname,omitempty")),
  With("n.ovr.path", <<Msg("Root", <<Fld("Str", 1, "string")>>, <<>>)>>, Ovr(<<KV("Root.Str", "ovr_path")>>)),
  With("n.ovr.path.json", <<Msg("Root", <<Json(Fld("Str", 1, "string"), "jname")>>, <<>>)>>, Ovr(<<KV("Root.Str", "ovr_path")>>)),
  With("n.ovr.tn", <<Leaf, Msg("Root", <<MsgF("Sub", 1, "Leaf"), MsgF("Sub2", 2, "Leaf")>>, <<>>)>>, Ovr(<<KV("Leaf.Str", "ovr_tn")>>)),
  With("n.ovr.nested.path", <<Leaf, Msg("Root", <<MsgF("Sub", 1, "Leaf"), MsgF("Sub2", 2, "Leaf")>>, <<>>)>>, Ovr(<<KV("Root.Sub.Str", "ovr_path")>>)),
  With("n.ovr.both", <<Leaf, Msg("Root", <<MsgF("Sub", 1, "Leaf"), MsgF("Sub2", 2, "Leaf")>>, <<>>)>>,
       Ovr(<<KV("Leaf.Str", "ovr_tn"), KV("Root.Sub.Str", "ovr_path")>>)),
  With("n.ovr.list.elem", <<Leaf, Msg("Root", <<Rep(MsgF("Subs", 1, "Leaf")), MapOf(MsgF("Dict", 2, "Leaf"))>>, <<>>)>>,
       Ovr(<<KV("Root.Subs.Str", "ovr_list"), KV("Root.Dict.Str", "ovr_map")>>)) >>

GenMapShapes == TypeTableShapes \o NamingShapes \o AllSessionShapes
=============================================================================
