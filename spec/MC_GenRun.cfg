SPECIFICATION GSpec
INVARIANT C14_Function
INVARIANT C12_ExactlySelected
INVARIANT C18_WholeOrNothing
INVARIANT C16_FailsClosed
INVARIANT C01_OneFile
CHECK_DEADLOCK FALSE
