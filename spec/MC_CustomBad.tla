---- MODULE MC_CustomBad ----
(* Family "custombad": custom-type fields with the attribute missing / of another Go type (CopyFrom) and the attribute type missing (CopyTo).  Serves C17. *)
EXTENDS GenShapes, TLC, Json
CONSTANTS MCDeep, MCLong
VARIABLES sh, M, Mi, obj, tf, dg, pn, pc, hist, viol, aux
MCShapes == CustomShapes
MCProps == {"C17"}
MCScript == <<"LoadRaw", "FreshObj", "CopyFrom">>
ASSUME PrintT("SHAPES " \o ToJson(MCShapes))
INSTANCE Session WITH Shapes <- MCShapes, Script <- MCScript, Deep <- MCDeep, Props <- MCProps, ObjMode <- "all", RawMode <- "corrupt", EmptyMode <- "plain"
====
