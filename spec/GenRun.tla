------------------------------- MODULE GenRun -------------------------------
(***************************************************************************)
(* The generator RUN as a state machine (DESIGN.md §1, §4.2): one          *)
(* sequential process per request.                                         *)
(*                                                                         *)
(*   ReadYaml    config.go: readFromYaml   (fails: unreadable / malformed) *)
(*   ReadCLI     config.go: readFromCLI    (command line over YAML)        *)
(*   CheckTypes  config.go: ReadConfig     (fails: no types)               *)
(*   Dump        config.go: dump / logMap  (ranges over Go maps: the ONLY  *)
(*               place where iteration order shows; it writes `log` only)  *)
(*   ProcessFile plugin.go: Generate, called by gogo for EVERY file of the *)
(*               request in request order; Plugin.Messages accumulates     *)
(*     per message of the file:  BuildRoot (selected, builds)              *)
(*                               SkipRoot  (selected, a field is unmappable*)
(*                               — warning, the type is left out whole)    *)
(*                               not selected: nothing                     *)
(*     nested messages are registered (non-root) BEFORE their root         *)
(*     sort: Messages by name                                              *)
(*     write: schema functions of all roots, then From / To per root       *)
(*   PostProcess main.go: goimports, license, package clause               *)
(*   Respond     main.go: one file <proto>_terraform.go, feature flag      *)
(*   GFail        generator.Fail: exit 1, nothing on stdout                 *)
(*                                                                         *)
(* RunOut(d, cfg) is the result as a function; the machine below reaches   *)
(* exactly it, whatever Dump does (C14), and the invariants state C12, C16 *)
(* and C18 at the design level.  Trace.tla compares the observed run       *)
(* (file order of `Processing:` lines, warnings, order of the emitted      *)
(* functions, exit status) with it.                                        *)
(***************************************************************************)
EXTENDS RunModel

---------------------------------------------------------------------------
CONSTANT Requests      \* sequence of [d, cfg]

VARIABLES rq, phase, cursor, messages, warned, processing, out, log

gvars == <<rq, phase, cursor, messages, warned, processing, out, log>>

NoOut == [exit |-> -1, files |-> <<>>, funcs |-> <<>>, package |-> ""]

GInit ==
  /\ rq \in DOMAIN Requests
  /\ phase = "start" /\ cursor = 0 /\ messages = <<>> /\ warned = <<>> /\ processing = <<>> /\ out = NoOut /\ log = <<>>

D == Requests[rq].d
C == Requests[rq].cfg

GFail == /\ phase' = "failed" /\ out' = [NoOut EXCEPT !.exit = 1]
        /\ UNCHANGED <<rq, cursor, messages, warned, processing, log>>

ReadYaml ==
  /\ phase = "start"
  /\ IF C.fault \in {"missingfile", "malformed", "mistypedlist", "mistypedbool", "mistypedmap"} THEN GFail
     ELSE phase' = "yaml" /\ UNCHANGED <<rq, cursor, messages, warned, processing, out, log>>

ReadCLI == phase = "yaml" /\ phase' = "cli" /\ UNCHANGED <<rq, cursor, messages, warned, processing, out, log>>

CheckTypes ==
  /\ phase = "cli"
  /\ IF C.fault \in {"notypes", "emptytypes"} \/ C.types = <<>> THEN GFail
     ELSE phase' = "ready" /\ UNCHANGED <<rq, cursor, messages, warned, processing, out, log>>

\* Config.dump: logs the keys of the configuration maps in Go's map iteration order
Dump ==
  /\ phase = "ready" /\ log = <<>>
  /\ \E order \in Permutations(Range(C.types)) : log' = <<order>>
  /\ UNCHANGED <<rq, phase, cursor, messages, warned, processing, out>>

ProcessFile ==
  /\ phase = "ready" /\ log # <<>> /\ cursor < Len(FileNames(D))
  /\ LET i == cursor + 1
         isF == i = Len(FileNames(D))
         msgs == FileMsgs(D, i)
         acc == BuildFile(D, C, msgs, [messages |-> messages, warned |-> warned])
         ms == IF C.sort THEN SortByName(acc.messages) ELSE acc.messages
     IN /\ cursor' = i
        /\ processing' = Append(processing, FileNames(D)[i])
        /\ messages' = ms /\ warned' = acc.warned
        \* write: only the file to generate keeps its output
        /\ out' = IF isF THEN [out EXCEPT !.funcs = FuncOrder([k \in DOMAIN ms |-> ms[k].name])] ELSE out
        /\ phase' = IF isF THEN "written" ELSE "ready"
  /\ UNCHANGED <<rq, log>>

PostProcess ==
  /\ phase = "written" /\ phase' = "post"
  /\ out' = [out EXCEPT !.package = TargetPackage(D, C)]
  /\ UNCHANGED <<rq, cursor, messages, warned, processing, log>>

Respond ==
  /\ phase = "post" /\ phase' = "done"
  /\ out' = [out EXCEPT !.exit = 0, !.files = <<D.pkg \o "_terraform.go">>]
  /\ UNCHANGED <<rq, cursor, messages, warned, processing, log>>

GNext == ReadYaml \/ ReadCLI \/ CheckTypes \/ Dump \/ ProcessFile \/ PostProcess \/ Respond

GSpec == GInit /\ [][GNext]_gvars

---------------------------------------------------------------------------
\* design-level statements of the run properties
Finished == phase \in {"done", "failed"}

\* C14: the result is a function of (d, cfg), whatever order Dump took
C14_Function ==
  Finished => LET r == RunOut(D, C)
              IN out.exit = r.exit /\ out.files = r.files /\ out.funcs = r.funcs /\ out.package = r.package
                 /\ (phase = "done" => warned = r.warned /\ processing = r.processing)

\* C12: exactly the selected, buildable types of the file, three functions each
C12_ExactlySelected ==
  phase = "done" => Range(out.funcs) = UNION {ThreeOf(T) : T \in Buildable(D, C)}

\* C18: a type with an unmappable field is left out whole and named in a warning
C18_WholeOrNothing ==
  phase = "done" => \A T \in Poisoned(D, C) : ThreeOf(T) \cap Range(out.funcs) = {} /\ T \in Range(warned)

\* C16: without types / with an unreadable configuration nothing is generated
C16_FailsClosed == ConfigFails(C) => (Finished => phase = "failed" /\ out.files = <<>> /\ out.funcs = <<>>)

\* C01: one file named after the proto file
C01_OneFile == phase = "done" => out.files = <<D.pkg \o "_terraform.go">> /\ out.exit = 0
=============================================================================
