------------------------------- MODULE Shapes -------------------------------
(***************************************************************************)
(* Constructors of abstract descriptors / configurations inside the        *)
(* supported fragment D (DESIGN.md §3) and the bounded shape families the  *)
(* model-checking configurations enumerate.  A shape is a record           *)
(*    [id, d, cfg, root]                                                   *)
(* The same records travel as JSON to the concretiser.                     *)
(***************************************************************************)
EXTENDS Naturals, Sequences, FiniteSets, TLC

Fld(name, num, ty) ==
  [name |-> name, num |-> num, ty |-> ty, ref |-> "", card |-> "one", mapkey |-> "", nullable |-> TRUE,
   embed |-> FALSE, oneof |-> "", hasjson |-> FALSE, jsontag |-> "", cast |-> "", custom |-> "", std |-> "",
   comment |-> <<>>]

MsgF(name, num, ref) == [Fld(name, num, "msg") EXCEPT !.ref = ref]
Rep(f) == [f EXCEPT !.card = "rep"]
MapOf(f) == [f EXCEPT !.card = "map", !.mapkey = "string"]
NonNull(f) == [f EXCEPT !.nullable = FALSE]
Embed(f) == [f EXCEPT !.embed = TRUE]
InOneof(f, o) == [f EXCEPT !.oneof = o]
StdTime(name, num) == [Fld(name, num, "timestamp") EXCEPT !.std = "time"]
StdDur(name, num) == [Fld(name, num, "duration") EXCEPT !.std = "duration"]
Cast(f, c) == [f EXCEPT !.cast = c]
Json(f, tag) == [f EXCEPT !.hasjson = TRUE, !.jsontag = tag]

Msg(name, fields, oneofs) == [name |-> name, fields |-> fields, oneofs |-> oneofs, comment |-> <<>>]
Desc(msgs) == [pkg |-> "tp", msgs |-> msgs, deps |-> <<>>]

BaseCfg ==
  [types |-> <<"Root">>, sort |-> FALSE, separate |-> FALSE, importoverride |-> FALSE, legacyoverride |-> FALSE, dottedimport |-> FALSE, capsimport |-> FALSE, samename |-> FALSE, extraoverride |-> FALSE,
   exclude |-> <<>>, required |-> <<>>, computed |-> <<>>, sensitive |-> <<>>, nameoverrides |-> <<>>, schematypes |-> <<>>,
   validators |-> <<>>, planmodifiers |-> <<>>, usfu |-> FALSE, injected |-> <<>>,
   timetype |-> TRUE, durationtype |-> TRUE, durationcustom |-> "", customtypes |-> <<>>, suffixes |-> <<>>,
   channel |-> <<>>, alts |-> <<>>, fault |-> ""]

Alt(name, clause, channel, perm, msgs) == [name |-> name, clause |-> clause, channel |-> channel, perm |-> perm, msgs |-> msgs, emptycli |-> FALSE, yamlstyle |-> "", boolstyle |-> "", cfgfile |-> "", cligap |-> 0]

\* A shape: one root type of one plugin run.  run names the (d, cfg) pair (shapes of the same run share the
\* generated package); group / role / gchecks tie runs together for relational clauses evaluated by the
\* trace validator (same key => same value within a group); pair ties behaviours together line by line.
NoPair == [key |-> "", role |-> "", clause |-> "", prop |-> "", exclkey |-> ""]
Shape(id, d, cfg) == [id |-> id, d |-> d, cfg |-> cfg, root |-> "Root", run |-> id,
                      group |-> "", role |-> "", gchecks |-> <<>>, pair |-> NoPair]
GCheck(kind, prop, clause) == [k |-> kind, p |-> prop, c |-> clause]
\* the same shape with a DOTTED proto package (acme.<pkg>.v1; type names in the descriptor read .acme.<pkg>.v1.Msg); the
\* Go package is unchanged and nothing in the specification depends on it: the mapping is a function of message names
Dotted(sp) == [sp EXCEPT !.id = @ \o ".dotpkg", !.run = @ \o ".dotpkg", !.d = [pkg |-> sp.d.pkg, msgs |-> sp.d.msgs, deps |-> sp.d.deps, dotted |-> TRUE]]

\* ---- auxiliary messages
Leaf == Msg("Leaf", <<Fld("Str", 1, "string")>>, <<>>)
Leaf2 == Msg("Leaf", <<Fld("Str", 1, "string"), Rep(Fld("Items", 2, "int32"))>>, <<>>)
EmptyM == Msg("Empty", <<>>, <<>>)
\* a message with a list, a map, a nested message and a oneof (depth-2 element)
Mid == Msg("Mid", <<Rep(Fld("Items", 1, "string")), MapOf(Fld("Tags", 2, "string")), MsgF("Sub", 3, "Leaf"),
                    InOneof(Fld("BranchA", 4, "string"), "Grp"), InOneof(MsgF("BranchB", 5, "Leaf"), "Grp")>>, <<"Grp">>)

Single(id, f) == Shape(id, Desc(<<Msg("Root", <<f>>, <<>>)>>), BaseCfg)
WithLeaf(id, f) == Shape(id, Desc(<<Leaf, Msg("Root", <<f>>, <<>>)>>), BaseCfg)
WithLeaf2(id, f) == Shape(id, Desc(<<Leaf2, Msg("Root", <<f>>, <<>>)>>), BaseCfg)
WithEmpty(id, f) == Shape(id, Desc(<<EmptyM, Msg("Root", <<f>>, <<>>)>>), BaseCfg)
WithMid(id, f) == Shape(id, Desc(<<Leaf, Mid, Msg("Root", <<f>>, <<>>)>>), BaseCfg)

\* ---- S1 .. S10 single-unit shapes (one field, one oneof group or one embed per root)
ScalarShapes == <<
  Single("s.string", Fld("Str", 1, "string")),
  Single("s.int32", Fld("Num", 1, "int32")),
  Single("s.float", Fld("Flt", 1, "float")),
  Single("s.bool", Fld("Flag", 1, "bool")),
  Single("s.bytes", Fld("Raw", 1, "bytes")),
  Single("s.enum", Fld("Kind", 1, "enum")),
  Single("s.snake", Fld("lower_num", 1, "uint64")),
  Single("s.cast", Cast(Fld("Str", 1, "string"), "CastStr")),
  Single("s.time.val", NonNull(StdTime("When", 1))),
  Single("s.time.ptr", StdTime("When", 1)),
  Single("s.dur.val", NonNull(StdDur("Dur", 1))),
  Single("s.dur.ptr", StdDur("Dur", 1)),
  Single("s.dur.cast", Cast(Fld("Dur", 1, "int64"), "time.Duration")) >>

ListShapes == <<
  Single("l.string", Rep(Fld("Items", 1, "string"))),
  Single("l.int32", Rep(Fld("Items", 1, "int32"))),
  Single("l.bytes", Rep(Fld("Items", 1, "bytes"))),
  Single("l.enum", Rep(Fld("Items", 1, "enum"))),
  Single("l.time.ptr", Rep(StdTime("Whens", 1))),
  Single("l.dur.cast", Rep(Cast(Fld("Durs", 1, "int64"), "time.Duration"))) >>

MapShapes == <<
  Single("m.string", MapOf(Fld("Tags", 1, "string"))),
  Single("m.int32", MapOf(Fld("Tags", 1, "int32"))),
  Single("m.enum", MapOf(Fld("Tags", 1, "enum"))),
  Single("m.bytes", MapOf(Fld("Tags", 1, "bytes"))),
  \* the option stdtime / stdduration sits on the map field, not on the value field of its entry message
  Single("m.time", MapOf(StdTime("Whens", 1))),
  Single("m.dur", MapOf(StdDur("Durs", 1))) >>

ObjShapes == <<
  WithLeaf("o.ptr", MsgF("Sub", 1, "Leaf")),
  WithLeaf("o.val", NonNull(MsgF("Sub", 1, "Leaf"))),
  WithLeaf2("o.ptr.list", MsgF("Sub", 1, "Leaf")),
  WithLeaf("ol.ptr", Rep(MsgF("Subs", 1, "Leaf"))),
  WithLeaf("ol.val", NonNull(Rep(MsgF("Subs", 1, "Leaf")))),
  WithLeaf("om.ptr", MapOf(MsgF("Dict", 1, "Leaf"))),
  WithLeaf("om.val", NonNull(MapOf(MsgF("Dict", 1, "Leaf")))),
  \* the nested message is declared in another file of the same package
  Shape("o.xfile", [pkg |-> "tp", msgs |-> <<Msg("Root", <<MsgF("Sub", 1, "Leaf"), Rep(MsgF("Subs", 2, "Leaf"))>>, <<>>)>>,
                    deps |-> <<[pkg |-> "lim", share |-> TRUE, msgs |-> <<Leaf>>]>>], BaseCfg) >>

OneofShapes == <<
  Shape("x.mixed", Desc(<<Leaf, EmptyM, Msg("Root", <<InOneof(Fld("BranchA", 1, "string"), "Grp"),
        InOneof(MsgF("BranchB", 2, "Leaf"), "Grp"), InOneof(Fld("BranchC", 3, "enum"), "Grp"),
        InOneof(MsgF("BranchD", 4, "Empty"), "Grp")>>, <<"Grp">>)>>), BaseCfg),
  Shape("x.snake", Desc(<<Msg("Root", <<InOneof(Fld("BranchA", 1, "int32"), "lower_grp"),
        InOneof(Fld("branch_e", 2, "bool"), "lower_grp")>>, <<"lower_grp">>)>>), BaseCfg),
  \* two groups whose branch names interleave once the fields are sorted by name
  Shape("x.interleaved", Desc(<<Leaf, Msg("Root", <<InOneof(Fld("BranchA", 1, "string"), "Grp"), InOneof(MsgF("BranchC", 2, "Leaf"), "Grp"),
        InOneof(Fld("BranchB", 3, "int32"), "Grp2"), InOneof(Fld("BranchD", 4, "string"), "Grp2"), Fld("Alpha", 5, "bool")>>, <<"Grp", "Grp2">>)>>),
        [BaseCfg EXCEPT !.sort = TRUE]),
  \* the last / the first branch of a group excluded: the remaining branches stay exclusive
  Shape("x.excl.last", Desc(<<Leaf, Msg("Root", <<InOneof(Fld("BranchA", 1, "string"), "Grp"), InOneof(MsgF("BranchB", 2, "Leaf"), "Grp"),
        InOneof(Fld("BranchC", 3, "int32"), "Grp"), Fld("Str", 4, "string")>>, <<"Grp">>)>>), [BaseCfg EXCEPT !.exclude = <<"Root.BranchC">>]),
  Shape("x.excl.first", Desc(<<Msg("Root", <<InOneof(Fld("BranchA", 1, "string"), "Grp"), InOneof(Fld("BranchB", 2, "bool"), "Grp"),
        InOneof(Fld("BranchC", 3, "string"), "Grp2"), InOneof(Fld("BranchD", 4, "int32"), "Grp2")>>, <<"Grp", "Grp2">>)>>),
        [BaseCfg EXCEPT !.exclude = <<"Root.BranchA", "Root.BranchD">>]),
  Shape("x.acronym", Desc(<<Leaf, Msg("Root", <<Fld("Str", 1, "string"), InOneof(Fld("BranchA", 2, "string"), "TLSMode"), InOneof(MsgF("BranchB", 3, "Leaf"), "TLSMode")>>, <<"TLSMode">>)>>), BaseCfg),
  Shape("x.two", Desc(<<Msg("Root", <<InOneof(Fld("BranchA", 1, "string"), "Grp"), InOneof(Fld("BranchB", 2, "string"), "Grp"),
        InOneof(Fld("BranchC", 3, "int32"), "Grp2"), InOneof(Fld("BranchD", 4, "int32"), "Grp2")>>, <<"Grp", "Grp2">>)>>), BaseCfg) >>

EmbedShapes == <<
  WithLeaf("e.val", NonNull(Embed(MsgF("Leaf", 1, "Leaf")))),
  WithLeaf("e.ptr", Embed(MsgF("Leaf", 1, "Leaf"))),
  WithLeaf2("e.ptr.list", Embed(MsgF("Leaf", 1, "Leaf"))),
  Shape("e.val.in.val", Desc(<<Msg("Inner", <<Fld("Num", 1, "int32")>>, <<>>),
        Msg("Outer", <<Fld("Str", 1, "string"), NonNull(Embed(MsgF("Inner", 2, "Inner")))>>, <<>>),
        Msg("Root", <<NonNull(Embed(MsgF("Outer", 1, "Outer"))), Fld("Flag", 2, "bool")>>, <<>>)>>), BaseCfg),
  \* the nullable embedded message with a list child one level BELOW the root (the known nil-parent defect, nested)
  Shape("e.ptr.list.below", Desc(<<Leaf2, Msg("Outer", <<Embed(MsgF("Leaf", 1, "Leaf")), Fld("Num", 2, "int32")>>, <<>>),
        Msg("Root", <<NonNull(MsgF("Sub", 1, "Outer")), Fld("Zed", 2, "string")>>, <<>>)>>), BaseCfg),
  \* a NULLABLE embedded message inside a message that is itself embedded BY VALUE
  Shape("e.ptr.in.val", Desc(<<Msg("Inner", <<Fld("Num", 1, "int32"), Fld("Flag", 2, "bool")>>, <<>>),
        Msg("Outer", <<Fld("Str", 1, "string"), Embed(MsgF("Inner", 2, "Inner"))>>, <<>>),
        Msg("Root", <<NonNull(Embed(MsgF("Outer", 1, "Outer"))), Fld("Zed", 2, "string")>>, <<>>)>>), BaseCfg),
  \* an embedded message (by value) that has a oneof group of its own: its branches are fields of the embedding message
  Shape("e.val.oneof", Desc(<<Msg("Inner", <<Fld("Num", 1, "int32"), InOneof(Fld("BranchA", 2, "string"), "Grp"), InOneof(Fld("BranchB", 3, "int32"), "Grp")>>, <<"Grp">>),
        Msg("Root", <<Fld("Str", 1, "string"), NonNull(Embed(MsgF("Inner", 2, "Inner")))>>, <<>>)>>), BaseCfg),
  \* ... embedded into a message that has a oneof group of its OWN, declared after / before the embedded message
  Shape("e.val.oneof.early", Desc(<<Msg("Inner", <<InOneof(Fld("BranchA", 1, "string"), "Grp"), InOneof(Fld("BranchB", 2, "int32"), "Grp")>>, <<"Grp">>),
        Msg("Root", <<NonNull(Embed(MsgF("Inner", 1, "Inner"))), InOneof(Fld("BranchC", 2, "string"), "Grp2"), InOneof(Fld("BranchD", 3, "bool"), "Grp2")>>, <<"Grp2">>)>>), BaseCfg),
  Shape("e.val.oneof.late", Desc(<<Msg("Inner", <<InOneof(Fld("BranchA", 1, "string"), "Grp"), InOneof(Fld("BranchB", 2, "int32"), "Grp")>>, <<"Grp">>),
        Msg("Root", <<InOneof(Fld("BranchC", 1, "string"), "Grp2"), InOneof(Fld("BranchD", 2, "bool"), "Grp2"), NonNull(Embed(MsgF("Inner", 3, "Inner")))>>, <<"Grp2">>)>>), BaseCfg),
  \* an embedded message whose FIELD is not named like its type (gogo names the struct member after the type)
  Shape("e.ptr.named", Desc(<<Leaf, Msg("Root", <<Fld("Num", 1, "int32"), Embed(MsgF("Extra", 2, "Leaf"))>>, <<>>)>>), BaseCfg),
  Shape("e.val.named", Desc(<<Leaf, Msg("Root", <<NonNull(Embed(MsgF("Extra", 1, "Leaf"))), Fld("Num", 2, "int32")>>, <<>>)>>), BaseCfg),
  \* a pointer scalar below a nullable embedded message (two nil checks in a row)
  Shape("e.ptr.time", Desc(<<Msg("Inner", <<StdTime("When", 1), Fld("Str", 2, "string")>>, <<>>),
        Msg("Root", <<Fld("Num", 1, "int32"), Embed(MsgF("Inner", 2, "Inner"))>>, <<>>)>>), BaseCfg),
  \* a message embedded into a message that is used twice below the root
  Shape("e.below", Desc(<<Leaf, Msg("Outer", <<NonNull(Embed(MsgF("Leaf", 1, "Leaf"))), Fld("Num", 2, "int32")>>, <<>>),
        Msg("Root", <<MsgF("Sub", 1, "Outer"), MsgF("Sub2", 2, "Outer")>>, <<>>)>>), BaseCfg) >>

EmptyShapes == <<
  WithEmpty("z.ptr", MsgF("Nothing", 1, "Empty")),
  WithEmpty("z.val", NonNull(MsgF("Nothing", 1, "Empty"))),
  WithEmpty("z.list", Rep(MsgF("Subs", 1, "Empty"))),
  WithEmpty("z.list.val", NonNull(Rep(MsgF("Subs", 1, "Empty")))),
  WithEmpty("z.map", MapOf(MsgF("Dict", 1, "Empty"))),
  WithEmpty("z.map.val", NonNull(MapOf(MsgF("Dict", 1, "Empty")))),
  Shape("z.root", Desc(<<Msg("Root", <<>>, <<>>)>>), BaseCfg) >>

DeepShapes == <<
  WithMid("d.obj", MsgF("Mid", 1, "Mid")),
  WithMid("d.obj.val", NonNull(MsgF("Mid", 1, "Mid"))),
  WithMid("d.list", Rep(MsgF("Subs", 1, "Mid"))),
  WithMid("d.map", MapOf(MsgF("Dict", 1, "Mid"))),
  \* a map and a list of messages held by a NESTED message (paths of their elements' fields run through two levels)
  Shape("d.obj.dict", Desc(<<Leaf, Msg("Outer", <<MapOf(MsgF("Dict", 1, "Leaf")), Rep(MsgF("Subs", 2, "Leaf")), Fld("Num", 3, "int32")>>, <<>>),
        Msg("Root", <<MsgF("Sub", 1, "Outer"), Fld("Str", 2, "string")>>, <<>>)>>), BaseCfg) >>

\* two independent units in one message: couplings through shared tf / obj shadowing
PairShapes == <<
  Shape("p.str.list", Desc(<<Leaf, Msg("Root", <<Fld("Str", 1, "string"), Rep(Fld("Items", 2, "int32")), MsgF("Sub", 3, "Leaf")>>, <<>>)>>), BaseCfg),
  Shape("p.sorted", Desc(<<Leaf, Msg("Root", <<Fld("Zed", 1, "string"), InOneof(Fld("BranchA", 2, "string"), "Grp"),
        Fld("Alpha", 3, "int32"), InOneof(Fld("BranchB", 4, "int32"), "Grp")>>, <<"Grp">>)>>), [BaseCfg EXCEPT !.sort = TRUE]),
  \* ordinary fields NAMED like the fields of a map entry message ("value", "key") next to maps whose elements have the same /
  \* another type: the element of a map is not the attribute "value" of the object being written
  Shape("p.value.str", Desc(<<Msg("Root", <<Fld("value", 1, "string"), MapOf(Fld("Tags", 2, "string"))>>, <<>>)>>), BaseCfg),
  Shape("p.value.obj", Desc(<<Leaf, Msg("Root", <<MsgF("value", 1, "Leaf"), MapOf(MsgF("Dict", 2, "Leaf"))>>, <<>>)>>), BaseCfg),
  Shape("p.value.other", Desc(<<Leaf, Msg("Inner", <<Fld("Num", 1, "int32"), Fld("Flag", 2, "bool")>>, <<>>),
        Msg("Root", <<MsgF("value", 1, "Leaf"), MapOf(MsgF("Dict", 2, "Inner"))>>, <<>>)>>), BaseCfg),
  \* a message at three paths, one field of it excluded by the full path of the FIRST occurrence only
  Shape("p.excl.path", Desc(<<Msg("Leaf", <<Fld("Str", 1, "string"), Fld("Num", 2, "int32")>>, <<>>),
        Msg("Root", <<MsgF("Sub", 1, "Leaf"), MsgF("Sub2", 2, "Leaf"), Rep(MsgF("Subs", 3, "Leaf"))>>, <<>>)>>), [BaseCfg EXCEPT !.exclude = <<"Root.Sub.Str">>]),
  Shape("p.key.str", Desc(<<Msg("Root", <<Fld("key", 1, "string"), MapOf(Fld("Tags", 2, "string")), Rep(Fld("Items", 3, "string"))>>, <<>>)>>), BaseCfg) >>

\* an excluded field: the Go field exists, the schema does not describe it (C05: left untouched)
ResetExtraShapes == <<
  Shape("r.excluded", Desc(<<Leaf, Msg("Root", <<Fld("Str", 1, "string"), Fld("Extra", 2, "string"), MsgF("Sub", 3, "Leaf"), Rep(Fld("Items", 4, "int32"))>>, <<>>)>>),
        [BaseCfg EXCEPT !.exclude = <<"Root.Extra", "Root.Items">>]),
  \* an excluded field of a message embedded by value: its siblings are flattened into the root, the holder is never replaced
  Shape("r.excl.embed", Desc(<<Msg("Inner", <<Fld("Num", 1, "int32"), Fld("Rev", 2, "string"), Fld("Str", 3, "string")>>, <<>>),
        Msg("Root", <<Fld("Flag", 1, "bool"), NonNull(Embed(MsgF("Inner", 2, "Inner")))>>, <<>>)>>),
        [BaseCfg EXCEPT !.exclude = <<"Inner.Rev">>]) >>

\* schema flags and metadata never change what the converters do
FlagShapes == <<
  Shape("f.flags", Desc(<<Leaf, Msg("Root", <<Fld("Str", 1, "string"), StdTime("When", 2), Fld("Num", 3, "int32"), Rep(Fld("Items", 4, "string")),
                                              MsgF("Sub", 5, "Leaf")>>, <<>>)>>),
        [BaseCfg EXCEPT !.required = <<"Root.Str", "Root.When", "Root.Sub">>, !.computed = <<"Root.Num", "Root.Items", "Leaf.Str">>,
                        !.sensitive = <<"Root.Sub.Str", "Root.Num">>, !.usfu = TRUE,
                        !.validators = <<[k |-> "Root.Str", v |-> <<"1">>], [k |-> "Root.Items", v |-> <<"2">>]>>,
                        !.planmodifiers = <<[k |-> "Root.When", v |-> <<"1">>]>>]),
  \* computed scalars in messages small enough for the full plan product: a KNOWN ZERO planned for a computed attribute
  \* (configured explicitly) is a known value like any other
  Shape("f.computed.a", Desc(<<Msg("Root", <<Fld("Str", 1, "string"), Fld("Num", 2, "int64")>>, <<>>)>>),
        [BaseCfg EXCEPT !.computed = <<"Root.Str", "Root.Num">>, !.usfu = TRUE]),
  Shape("f.computed.b", Desc(<<Msg("Leaf", <<Fld("Flag", 1, "bool"), Fld("Flt", 2, "double")>>, <<>>), Msg("Root", <<MsgF("Sub", 1, "Leaf")>>, <<>>)>>),
        [BaseCfg EXCEPT !.computed = <<"Leaf.Flag", "Root.Sub.Flt">>]) >>

\* schema_types: the attribute type replaced for a string (by path) and for 64-bit integers (by Message.field, at the
\* root and nested); the converters treat the field like any other scalar.  (Overrides of repeated fields and of
\* fields whose Go type differs from cast_to_type do not compile in the current generator: outside D, DESIGN.md 7.1.)
OverrideShapes == <<
  Shape("v.ovr", Desc(<<Msg("Leaf", <<Fld("Str", 1, "string"), Fld("Num", 2, "int64")>>, <<>>),
                         Msg("Root", <<Fld("Str", 1, "string"), Fld("Num", 2, "int64"), MsgF("Sub", 3, "Leaf"), Rep(Fld("Items", 4, "int64"))>>, <<>>)>>),
        [BaseCfg EXCEPT !.schematypes = <<[k |-> "Root.Str", v |-> "string"], [k |-> "Leaf.Num", v |-> "int64"]>>]) >>

DottedSessionShapes == <<Dotted(DeepShapes[1]), Dotted(EmbedShapes[2]), Dotted(OneofShapes[2])>>
AllSessionShapes == DottedSessionShapes \o OverrideShapes \o ScalarShapes \o ListShapes \o MapShapes \o ObjShapes \o OneofShapes \o EmbedShapes \o EmptyShapes \o DeepShapes \o PairShapes \o FlagShapes
\* refresh histories are quadratic / cubic in the number of values: one shape per kind of coupling
RefreshShapes == ScalarShapes \o ListShapes \o MapShapes \o ObjShapes \o OneofShapes \o EmbedShapes \o EmptyShapes \o PairShapes
=============================================================================
