SPECIFICATION Spec
CONSTANT MCDeep = FALSE
INVARIANT Emit
CHECK_DEADLOCK FALSE
