---- MODULE MC_Custom ----
(* Family "custom": custom-type fields (proto option / configuration, singular / repeated, with / without suffix entry): SetObj v ; NewEmpty ; CopyTo ; CopyTo ; FreshObj ; CopyFrom; the hook call log is judged.  Serves C17. *)
EXTENDS GenShapes, TLC, Json
CONSTANTS MCDeep, MCLong
VARIABLES sh, M, Mi, obj, tf, dg, pn, pc, hist, viol, aux
MCShapes == CustomShapes
MCProps == {"C17"}
MCScript == <<"SetObj", "NewEmpty", "CopyTo", "CopyTo", "FreshObj", "CopyFrom">>
ASSUME PrintT("SHAPES " \o ToJson(MCShapes))
INSTANCE Session WITH Shapes <- MCShapes, Script <- MCScript, Deep <- MCDeep, Props <- MCProps, ObjMode <- "all", RawMode <- "plans", EmptyMode <- "plain"
====
