---- MODULE MC_SessBadFrom ----
(* Family "badfrom": LoadRaw (corrupted object) ; FreshObj ; CopyFrom.  Serves C06 (CopyFrom part). *)
EXTENDS Shapes, TLC, Json
CONSTANTS MCDeep, MCLong
VARIABLES sh, M, Mi, obj, tf, dg, pn, pc, hist, viol, aux
MCShapes == AllSessionShapes
MCScript == IF MCLong THEN <<"LoadRaw", "FreshObj", "CopyFrom">> ELSE <<"LoadRaw", "FreshObj", "CopyFrom">>
MCProps == {"C06"}
ASSUME PrintT("SHAPES " \o ToJson(MCShapes))
INSTANCE Session WITH Shapes <- MCShapes, Script <- MCScript, Deep <- MCDeep, Props <- MCProps, ObjMode <- "all", RawMode <- "corrupt", EmptyMode <- "plain"
====
