------------------------------ MODULE RunModel ------------------------------
(***************************************************************************)
(* The result of a generator run as a FUNCTION of its input (descriptor,   *)
(* configuration): exit status, files processed in order, warnings,        *)
(* emitted functions in order, package clause.  GenRun.tla is the state    *)
(* machine that reaches it step by step; Trace.tla compares the observed   *)
(* run summary with it.                                                    *)
(***************************************************************************)
EXTENDS GenContract

\* ---- registration order: BuildMessage registers the nested messages of a root depth first, before the root
RECURSIVE NestedOf(_)
NestedOf(M) ==
  LET RECURSIVE Go(_)
      Go(i) == IF i > Len(M.fields) THEN <<>>
               ELSE LET F == M.fields[i]
                    IN (IF F.msg # NoMsg /\ Len(F.gopath) = 1 THEN NestedOf(SubOf(F)) \o <<[name |-> SubOf(F).name, root |-> FALSE]>> ELSE <<>>) \o Go(i + 1)
  IN Go(1)

\* messages of a file in declaration order that are selected
RECURSIVE BuildFile(_, _, _, _)
BuildFile(d, cfg, msgs, acc) ==
  IF msgs = <<>> THEN acc
  ELSE LET m == Head(msgs)
           sel == m.name \in Range(cfg.types)
           b == BuildRootImpl(d, cfg, m.name)
       IN BuildFile(d, cfg, Tail(msgs),
            IF ~sel THEN acc
            ELSE IF b.ok THEN [acc EXCEPT !.messages = @ \o <<[name |-> m.name, root |-> TRUE]>>]
            ELSE [acc EXCEPT !.warned = Append(@, m.name)])

\* insertion sort by Go name order (sort.Slice by Message.Name)
RECURSIVE InsertMsg(_, _)
InsertMsg(sorted, x) ==
  IF sorted = <<>> THEN <<x>>
  ELSE IF Rank(x.name) < Rank(Head(sorted).name) THEN <<x>> \o sorted ELSE <<Head(sorted)>> \o InsertMsg(Tail(sorted), x)
RECURSIVE SortByName(_)
SortByName(ms) == IF ms = <<>> THEN <<>> ELSE InsertMsg(SortByName(Tail(ms)), Head(ms))

FuncOrder(roots) ==
  [i \in DOMAIN roots |-> FnSchema(roots[i])]
  \o FlattenSeq([i \in DOMAIN roots |-> <<FnFrom(roots[i]), FnTo(roots[i])>>])

\* the request always carries the four imported standard files first (their messages are never selected: names
\* of `types` do not clash with them, C12), then unrelated dependency files, then the file to generate
StdFiles == <<"google/protobuf/descriptor.proto", "gogoproto/gogo.proto", "google/protobuf/timestamp.proto", "google/protobuf/duration.proto">>
FileNames(d) == StdFiles \o [i \in DOMAIN d.deps |-> d.deps[i].pkg \o ".proto"] \o <<d.pkg \o ".proto">>
FileMsgs(d, i) == IF i <= Len(StdFiles) THEN <<>>
                  ELSE IF i = Len(FileNames(d)) THEN d.msgs ELSE d.deps[i - Len(StdFiles)].msgs

ConfigFails(cfg) == cfg.fault \in {"missingfile", "malformed", "mistypedlist", "mistypedbool", "mistypedmap", "notypes", "emptytypes"} \/ cfg.types = <<>>

\* the run as a function of its input
RunOut(d, cfg) ==
  IF ConfigFails(cfg) THEN [exit |-> 1, files |-> <<>>, funcs |-> <<>>, warned |-> <<>>, processing |-> <<>>, package |-> ""]
  \* Generate is called for EVERY file of the request, imported ones first, and Plugin.Messages is never reset: a selected
  \* type declared in an imported file of the package is emitted into the file to generate as well (in front, unless sorted)
  ELSE LET RECURSIVE All(_, _)
           All(i, a) == IF i > Len(FileNames(d)) THEN a
                        ELSE LET b == BuildFile(d, cfg, FileMsgs(d, i), a)
                             IN All(i + 1, [b EXCEPT !.messages = IF cfg.sort THEN SortByName(@) ELSE @])
           acc == All(1, [messages |-> <<>>, warned |-> <<>>])
           ms == acc.messages
           roots == [i \in DOMAIN ms |-> ms[i].name]
       IN [exit |-> 0, files |-> <<d.pkg \o "_terraform.go">>, funcs |-> FuncOrder(roots), warned |-> acc.warned,
           processing |-> FileNames(d), package |-> TargetPackage(d, cfg)]

=============================================================================
